import BigtoolsModel.FileRT
import BigtoolsModel.BedQueryBytes
/-! Probe (C02, file level): the bigBed counterpart of `wig_file_roundtrip` (little-endian, uncompressed blocks,
    repaired span rule). -/
namespace BBI
open RT CD

def bedHeaderBytes (zoomCount chromTreeOff dataOff indexOff fieldCount definedFieldCount autoSqlOff summaryOff bufSize : Nat) :
    List Nat :=
  le 4 BIGBED_MAGIC ++ le 2 4 ++ le 2 zoomCount ++ le 8 chromTreeOff ++ le 8 dataOff ++ le 8 indexOff ++
    le 2 fieldCount ++ le 2 definedFieldCount ++ le 8 autoSqlOff ++ le 8 summaryOff ++ le 4 bufSize ++ le 8 0

theorem bedHeaderBytes_length (a b c d e f g h i : Nat) : (bedHeaderBytes a b c d e f g h i).length = 64 := by
  simp [bedHeaderBytes, le_length]

theorem bed_magic_bytes : le 4 BIGBED_MAGIC = [0xEB, 0xF2, 0x89, 0x87] := by decide

theorem readHeader_bed (l : List Nat) (zc cto dof io fc dfc aso so bs : Nat) (rest : List Nat)
    (h : l = bedHeaderBytes zc cto dof io fc dfc aso so bs ++ rest) (hzc : zc < 256 ^ 2) (hcto : cto < 256 ^ 8)
    (hio : io < 256 ^ 8) (hlen : 64 + zc * 24 ≤ l.length) :
    ∃ hd, readHeader (srcOf l) = .ok hd ∧ hd.kind = .bigBed ∧ hd.endian = .little ∧
      hd.chromTreeOffset = cto ∧ hd.fullIndexOffset = io := by
  have hh : Has l 0 (bedHeaderBytes zc cto dof io fc dfc aso so bs) := ⟨[], rest, by simpa using h, rfl⟩
  unfold bedHeaderBytes at hh
  have h1 := hh.left.left.left.left.left.left.left.left.left.left.left
  have h3 := hh.left.left.left.left.left.left.left.left.left.right
  have h4 := hh.left.left.left.left.left.left.left.left.right
  have h6 := hh.left.left.left.left.left.left.right
  simp only [List.length_append, le_length] at h1 h3 h4 h6
  have lmagic : u32 .little (srcOf l) 0 = BIGBED_MAGIC := uN_le l 4 0 _ h1 (by decide)
  have lnot : u32 .little (srcOf l) 0 ≠ BIGWIG_MAGIC := by rw [lmagic]; decide
  rw [bed_magic_bytes] at h1
  have b0 := h1.byte 0 (by simp) (by simp)
  have b1 := h1.byte 1 (by simp) (by simp)
  have b2 := h1.byte 2 (by simp) (by simp)
  have b3 := h1.byte 3 (by simp) (by simp)
  simp only [List.getElem_cons_zero, List.getElem_cons_succ, Nat.zero_add] at b0 b1 b2 b3
  have bmagic : u32 .big (srcOf l) 0 ≠ BIGWIG_MAGIC := by
    simp only [u32, uN_big4, Nat.zero_add, b0, b1, b2, b3]; decide
  have bmagic2 : u32 .big (srcOf l) 0 ≠ BIGBED_MAGIC := by
    simp only [u32, uN_big4, Nat.zero_add, b0, b1, b2, b3]; decide
  have z : u16 .little (srcOf l) 6 = zc := uN_le l 2 6 _ (h3.cast (by omega)) hzc
  have c8 : u64 .little (srcOf l) 8 = cto := uN_le l 8 8 _ (h4.cast (by omega)) hcto
  have c24 : u64 .little (srcOf l) 24 = io := uN_le l 8 24 _ (h6.cast (by omega)) hio
  have n1 : 0 + 64 ≤ (srcOf l).size := by show 0 + 64 ≤ l.length; omega
  have n2 : 64 + zc * 24 ≤ (srcOf l).size := hlen
  have hr : readHeader (srcOf l) = .ok
      { kind := .bigBed, endian := .little, version := u16 .little (srcOf l) 4, zoomLevels := zc,
        chromTreeOffset := cto, fullDataOffset := u64 .little (srcOf l) 16, fullIndexOffset := io,
        fieldCount := u16 .little (srcOf l) 32, definedFieldCount := u16 .little (srcOf l) 34,
        autoSqlOffset := u64 .little (srcOf l) 36, totalSummaryOffset := u64 .little (srcOf l) 44,
        uncompressBufSize := u32 .little (srcOf l) 52,
        zooms := (List.range zc).map fun i =>
          { reduction := u32 .little (srcOf l) (64 + 24 * i), dataOffset := u64 .little (srcOf l) (64 + 24 * i + 8),
            indexOffset := u64 .little (srcOf l) (64 + 24 * i + 16) : ZoomHdr } } := by
    simp only [readHeader, need, n1, if_true, bind, Except.bind, pure, Except.pure, bmagic, bmagic2, lnot, if_false,
      lmagic, z, n2, c8, c24]
    rw [if_neg (by decide)]
  exact ⟨_, hr, rfl, rfl, rfl, rfl⟩

/-- the reader for bigBed, fuel as a parameter -/
def getBedIntervalF (fuel : Nat) (l : List Nat) (name : List UInt8) (qs qe : Nat) : Except Err (Except BErr (List Entry)) :=
  match readHeader (srcOf l) with
  | .error e => .error e
  | .ok h =>
    match readChroms h (srcOf l) with
    | .error e => .error e
    | .ok chroms =>
      match chroms.find? (fun c => c.name = name) with
      | none => .error (.invalidFile "chromosome")
      | some c =>
        if h.fullIndexOffset + 48 > l.length then .error (.truncated "index header") else
        if u32 h.endian (srcOf l) h.fullIndexOffset ≠ CIR_TREE_MAGIC then .error .unknownMagic else
        match searchCir h.endian (srcOf l) 24 c.id qs qe fuel [h.fullIndexOffset + 48] [] with
        | .error e => .error e
        | .ok blocks => .ok (goBedBlocks l c.id qs qe blocks)

def mkBSecs : Nat → List (Nat × Nat × Nat × List Entry) → List BSec
  | _, [] => []
  | base, x :: xs =>
    ⟨x.1, x.2.1, x.2.2.1, x.2.2.2, base⟩ :: mkBSecs (base + (x.2.2.2.flatMap (encEntry x.1)).length) xs

def bedDataBytes (xs : List (Nat × Nat × Nat × List Entry)) : List Nat := xs.flatMap fun x => x.2.2.2.flatMap (encEntry x.1)

theorem mkBSecs_has (l : List Nat) : ∀ (xs : List (Nat × Nat × Nat × List Entry)) (base : Nat),
    Has l base (bedDataBytes xs) → ∀ d ∈ mkBSecs base xs, Has l d.off d.bytes := by
  intro xs
  induction xs with
  | nil => intro base _ d hd; simp [mkBSecs] at hd
  | cons x xs ih =>
    intro base h d hd
    simp only [bedDataBytes, List.flatMap_cons] at h
    simp only [mkBSecs, List.mem_cons] at hd
    rcases hd with rfl | hd
    · exact h.left
    · exact ih _ h.right d hd

structure BedFile where
  zoomCount : Nat
  dataOff : Nat
  fieldCount : Nat
  definedFieldCount : Nat
  autoSqlOff : Nat
  summaryOff : Nat
  bufSize : Nat
  mid : List Nat                                    -- zoom directory, autoSql text, total summary, data count
  sections : List (Nat × Nat × Nat × List Entry)    -- (chrom id, span start, span end, entries)
  keySize : Nat
  chromBlockSize : Nat
  chroms : List (List Nat × Nat × Nat)
  blockSize : Nat
  itemsPerSlot : Nat
  rootSpan : Span
  levels : List (List T)
  tail : List Nat

def BedFile.dataStart (f : BedFile) : Nat := 64 + f.mid.length
def BedFile.cto (f : BedFile) : Nat := f.dataStart + (bedDataBytes f.sections).length
def BedFile.io (f : BedFile) : Nat := f.cto + (chromTreeBytes f.keySize f.chromBlockSize f.chroms).length
def BedFile.ds (f : BedFile) : List BSec := mkBSecs f.dataStart f.sections

def BedFile.bytes (f : BedFile) : List Nat :=
  bedHeaderBytes f.zoomCount f.cto f.dataOff f.io f.fieldCount f.definedFieldCount f.autoSqlOff f.summaryOff f.bufSize ++
    f.mid ++ bedDataBytes f.sections ++ chromTreeBytes f.keySize f.chromBlockSize f.chroms ++
    (cirHeaderBytes f.blockSize f.sections.length f.rootSpan f.io f.itemsPerSlot ++ body f.blockSize (f.io + 48) f.levels) ++
    f.tail

structure BedFile.Valid (f : BedFile) : Prop where
  zc : f.zoomCount < 256 ^ 2
  zdir : f.zoomCount * 24 ≤ f.mid.length
  size : f.bytes.length < 256 ^ 8
  ks : f.keySize < 256 ^ 4
  nchroms : f.chroms.length < 256 ^ 2
  chromsOK : ∀ c ∈ f.chroms, ChromOK f.keySize c
  names : (f.chroms.map (·.1)).Nodup
  b2 : 2 ≤ f.blockSize
  b16 : f.blockSize < 256 ^ 2
  nonempty : f.sections ≠ []
  secsOK : ∀ d ∈ f.ds, BSecOK d
  sorted : LoSorted (f.ds.map BSec.sec)
  levels : levelsOf true f.blockSize (f.ds.map BSec.sec) = some f.levels

/-- **C02, file level (little-endian, uncompressed, repaired span rule).** -/
theorem bed_file_roundtrip (f : BedFile) (hv : f.Valid) (c : List Nat × Nat × Nat) (hc : c ∈ f.chroms) (qs qe : Nat) :
    ∃ fuel₀, ∀ fuel, fuel₀ ≤ fuel →
      getBedIntervalF fuel f.bytes (c.1.map UInt8.ofNat) qs qe =
        .ok (.ok (((f.ds.filter fun d => d.chrom = c.2.1).flatMap (·.items)).filter (bedKeep qs qe))) := by
  have hcto : Has f.bytes f.cto (chromTreeBytes f.keySize f.chromBlockSize f.chroms) :=
    ⟨bedHeaderBytes f.zoomCount f.cto f.dataOff f.io f.fieldCount f.definedFieldCount f.autoSqlOff f.summaryOff f.bufSize ++
       f.mid ++ bedDataBytes f.sections,
     (cirHeaderBytes f.blockSize f.sections.length f.rootSpan f.io f.itemsPerSlot ++ body f.blockSize (f.io + 48) f.levels) ++ f.tail,
     by simp [BedFile.bytes, List.append_assoc],
     by simp [BedFile.cto, BedFile.dataStart, bedHeaderBytes_length]; omega⟩
  have hdata : Has f.bytes f.dataStart (bedDataBytes f.sections) :=
    ⟨bedHeaderBytes f.zoomCount f.cto f.dataOff f.io f.fieldCount f.definedFieldCount f.autoSqlOff f.summaryOff f.bufSize ++ f.mid,
     chromTreeBytes f.keySize f.chromBlockSize f.chroms ++
       ((cirHeaderBytes f.blockSize f.sections.length f.rootSpan f.io f.itemsPerSlot ++ body f.blockSize (f.io + 48) f.levels) ++ f.tail),
     by simp [BedFile.bytes, List.append_assoc],
     by simp [BedFile.dataStart, bedHeaderBytes_length]⟩
  have hidx : Has f.bytes f.io
      (cirHeaderBytes f.blockSize f.sections.length f.rootSpan f.io f.itemsPerSlot ++ body f.blockSize (f.io + 48) f.levels) :=
    ⟨bedHeaderBytes f.zoomCount f.cto f.dataOff f.io f.fieldCount f.definedFieldCount f.autoSqlOff f.summaryOff f.bufSize ++
       f.mid ++ bedDataBytes f.sections ++ chromTreeBytes f.keySize f.chromBlockSize f.chroms, f.tail,
     by simp [BedFile.bytes, List.append_assoc],
     by simp [BedFile.io, BedFile.cto, BedFile.dataStart, bedHeaderBytes_length]; omega⟩
  have hbody : Has f.bytes (f.io + 48) (body f.blockSize (f.io + 48) f.levels) := by
    have := hidx.right; rwa [cirHeaderBytes_length] at this
  have hio : f.io < 256 ^ 8 := by have := hidx.size; have := hv.size; omega
  have hctob : f.cto < 256 ^ 8 := by have := hcto.size; have := hv.size; omega
  obtain ⟨hd, hrd, _, hend, hdc, hdi⟩ := readHeader_bed f.bytes f.zoomCount f.cto f.dataOff f.io f.fieldCount
    f.definedFieldCount f.autoSqlOff f.summaryOff f.bufSize
    (f.mid ++ bedDataBytes f.sections ++ chromTreeBytes f.keySize f.chromBlockSize f.chroms ++
      (cirHeaderBytes f.blockSize f.sections.length f.rootSpan f.io f.itemsPerSlot ++ body f.blockSize (f.io + 48) f.levels) ++ f.tail)
    (by simp [BedFile.bytes, List.append_assoc]) hv.zc hctob hio
    (by have := hv.zdir; simp only [BedFile.bytes, List.length_append, bedHeaderBytes_length]; omega)
  have hrc := readChroms_written f.bytes hd hend f.keySize f.chromBlockSize f.chroms hv.ks hv.nchroms hv.chromsOK
    (by rw [hdc]; exact hcto)
  have hmagic : u32 .little (srcOf f.bytes) f.io = CIR_TREE_MAGIC := by
    have h1 := hidx.left
    unfold cirHeaderBytes at h1
    exact uN_le f.bytes 4 _ _ h1.left.left.left.left.left.left.left.left.left (by decide)
  have h48 : ¬ (f.io + 48 > f.bytes.length) := by
    have := hidx.left.size; rw [cirHeaderBytes_length] at this; omega
  have hds_ne : f.ds ≠ [] := by
    intro h
    have hne := hv.nonempty
    cases hs : f.sections with
    | nil => exact hne hs
    | cons x xs => simp [BedFile.ds, hs, mkBSecs] at h
  obtain ⟨fuel₀, blocks, hsearch, hgo⟩ := bed_query_bytes f.blockSize hv.b2 hv.b16 f.ds hds_ne hv.sorted hv.secsOK
    f.bytes hv.size (mkBSecs_has f.bytes f.sections f.dataStart hdata) f.levels hv.levels (f.io + 48) hbody c.2.1 qs qe
  refine ⟨fuel₀, fun fuel hfuel => ?_⟩
  have hs' := searchCir_mono .little (srcOf f.bytes) 24 c.2.1 qs qe fuel₀ _ _ _ hsearch (fuel - fuel₀)
  rw [show fuel₀ + (fuel - fuel₀) = fuel by omega] at hs'
  simp only [getBedIntervalF, hrd, hrc, find_chrom f.keySize f.chroms hv.chromsOK hv.names c hc, hdi, h48, if_false, hend,
    hmagic, ne_eq, not_true_eq_false, chromOf, hs', hgo]

end BBI
