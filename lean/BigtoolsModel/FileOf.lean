import BigtoolsModel.FileRT
/-! Probe (C01, closing the loop at the model level): `fileOf` builds the `WigFile` the writer lays down for an
    input (chromosomes in order of appearance with ids 0,1,2,…; values cut into sections of `ips`; index with
    fan-out `b`); `fileOf_valid`: for every valid input the file is `Valid`; hence `wig_model_roundtrip`: reading
    back any chromosome and range from the written bytes returns the input's values, filtered and clipped. -/
namespace BBI
open RT CD

structure ChromIn where
  name : List Nat
  size : Nat
  vals : List Value

def firstStart (ch : List Value) : Nat := (ch.head?.map (·.start)).getD 0
def lastStop (ch : List Value) : Nat := (ch.getLast?.map (·.stop)).getD 0

/-- sections of one chromosome -/
def secsOf (ips id : Nat) (c : ChromIn) : List (Nat × Nat × Nat × List Value) :=
  (chunks ips c.vals).map fun ch => (id, firstStart ch, lastStop ch, ch)

def sectionsFrom (ips : Nat) : Nat → List ChromIn → List (Nat × Nat × Nat × List Value)
  | _, [] => []
  | id, c :: cs => secsOf ips id c ++ sectionsFrom ips (id + 1) cs

def chromsFrom : Nat → List ChromIn → List (List Nat × Nat × Nat)
  | _, [] => []
  | id, c :: cs => (c.name, id, c.size) :: chromsFrom (id + 1) cs

structure ChromInOK (c : ChromIn) : Prop where
  name : ∀ b ∈ c.name, b ≠ 0 ∧ b < 256
  size : c.size < 256 ^ 4
  nonempty : c.vals ≠ []
  vals : ∀ v ∈ c.vals, v.start < v.stop ∧ v.stop ≤ c.size ∧ v.bits < 256 ^ 4
  sorted : c.vals.Pairwise fun a b => a.stop ≤ b.start

/-! ### facts about one chromosome's sections -/

theorem starts_sorted (vals : List Value) (h : vals.Pairwise fun a b => a.stop ≤ b.start)
    (hp : ∀ v ∈ vals, v.start < v.stop) : vals.Pairwise fun a b => a.start ≤ b.start ∧ a.stop ≤ b.stop := by
  induction vals with
  | nil => exact List.Pairwise.nil
  | cons x xs ih =>
    rw [List.pairwise_cons] at h ⊢
    refine ⟨fun y hy => ?_, ih h.2 (fun v hv => hp v (by simp [hv]))⟩
    have := h.1 y hy
    have := hp x (by simp)
    have := hp y (by simp [hy])
    omega

theorem firstStart_le (ch : List Value) (h : ch.Pairwise fun a b => a.start ≤ b.start ∧ a.stop ≤ b.stop) :
    ∀ v ∈ ch, firstStart ch ≤ v.start := by
  cases ch with
  | nil => simp
  | cons x xs =>
    intro v hv
    simp only [firstStart, List.head?_cons, Option.map_some, Option.getD_some]
    simp only [List.mem_cons] at hv
    rcases hv with rfl | hv
    · omega
    · exact ((List.pairwise_cons.mp h).1 v hv).1

theorem le_lastStop (ch : List Value) (h : ch.Pairwise fun a b => a.start ≤ b.start ∧ a.stop ≤ b.stop) :
    ∀ v ∈ ch, v.stop ≤ lastStop ch := by
  induction ch with
  | nil => simp
  | cons x xs ih =>
    intro v hv
    have hp := List.pairwise_cons.mp h
    cases xs with
    | nil => simp at hv; subst hv; simp [lastStop]
    | cons y ys =>
      have ih' := ih hp.2
      simp only [lastStop, List.getLast?_cons_cons] at ih' ⊢
      simp only [List.mem_cons] at hv
      rcases hv with rfl | hv
      · cases hl : (y :: ys).getLast? with
        | none => simp at hl
        | some z =>
          simp only [Option.map_some, Option.getD_some]
          exact (hp.1 z (List.mem_of_getLast? hl)).2
      · exact ih' v (by simpa using hv)

theorem mkDSecs_mem : ∀ (xs : List (Nat × Nat × Nat × List Value)) (base : Nat) (d : DSec), d ∈ mkDSecs base xs →
    ∃ x ∈ xs, d.chrom = x.1 ∧ d.lob = x.2.1 ∧ d.hib = x.2.2.1 ∧ d.items = x.2.2.2 ∧
      d.size = (enc1 x.1 x.2.2.2).length ∧ base ≤ d.off ∧ d.off + d.size ≤ base + (dataBytes xs).length := by
  intro xs
  induction xs with
  | nil => intro base d h; simp [mkDSecs] at h
  | cons x xs ih =>
    intro base d h
    simp only [mkDSecs, List.mem_cons] at h
    simp only [dataBytes, List.flatMap_cons, List.length_append]
    rcases h with rfl | h
    · exact ⟨x, by simp, rfl, rfl, rfl, rfl, rfl, Nat.le_refl _, by simp only; omega⟩
    · obtain ⟨y, hy, h1, h2, h3, h4, h5, h6, h7⟩ := ih _ d h
      refine ⟨y, by simp [hy], h1, h2, h3, h4, h5, by omega, ?_⟩
      simp only [dataBytes] at h7
      omega

theorem sectionsFrom_mem (ips : Nat) : ∀ (cs : List ChromIn) (id0 : Nat) (x : Nat × Nat × Nat × List Value),
    x ∈ sectionsFrom ips id0 cs →
    ∃ c ∈ cs, ∃ ch ∈ chunks ips c.vals, x = (x.1, firstStart ch, lastStop ch, ch) ∧ id0 ≤ x.1 ∧ x.1 < id0 + cs.length := by
  intro cs
  induction cs with
  | nil => intro id0 x h; simp [sectionsFrom] at h
  | cons c cs ih =>
    intro id0 x h
    simp only [sectionsFrom, List.mem_append, secsOf, List.mem_map] at h
    rcases h with ⟨ch, hch, rfl⟩ | h
    · exact ⟨c, by simp, ch, hch, rfl, Nat.le_refl _, by simp⟩
    · obtain ⟨c', hc', ch, hch, hx, h1, h2⟩ := ih (id0 + 1) x h
      exact ⟨c', by simp [hc'], ch, hch, hx, by omega, by simp only [List.length_cons]; omega⟩

/-- every stored section of a valid input is well-formed -/
theorem section_ok (ips : Nat) (hips : ips < 256 ^ 2) (cs : List ChromIn) (hcs : ∀ c ∈ cs, ChromInOK c)
    (hn : cs.length < 256 ^ 2) (base total : Nat) (htotal : base + (dataBytes (sectionsFrom ips 0 cs)).length ≤ total)
    (h64 : total < 256 ^ 8) : ∀ d ∈ mkDSecs base (sectionsFrom ips 0 cs), DSecOK d := by
  intro d hd
  obtain ⟨x, hx, e1, e2, e3, e4, e5, e6, e7⟩ := mkDSecs_mem _ base d hd
  obtain ⟨c, hc, ch, hch, hxe, hid1, hid2⟩ := sectionsFrom_mem ips cs 0 x hx
  have hok := hcs c hc
  have hsub := chunks_sublist ips c.vals ch hch
  have hne := chunks_ne_nil ips c.vals ch hch
  have hlen := chunksF_length_le ips _ c.vals ch hch
  have hsorted : ch.Pairwise fun a b => a.start ≤ b.start ∧ a.stop ≤ b.stop :=
    (starts_sorted c.vals hok.sorted (fun v hv => (hok.vals v hv).1)).sublist hsub
  have hv : ∀ v ∈ ch, v.start < v.stop ∧ v.stop ≤ c.size ∧ v.bits < 256 ^ 4 := fun v hv => hok.vals v (hsub.subset hv)
  have hitems : d.items = ch := by rw [e4, hxe]
  have hlob : d.lob = firstStart ch := by rw [e2, hxe]
  have hhib : d.hib = lastStop ch := by rw [e3, hxe]
  have hchrom : d.chrom < 256 ^ 4 := by rw [e1]; simp only [Nat.zero_add] at hid2; omega
  -- the first and last items bound the advertised span
  obtain ⟨f, hf⟩ : ∃ f, ch.head? = some f := by
    cases ch with
    | nil => exact absurd rfl hne
    | cons a as => exact ⟨a, rfl⟩
  obtain ⟨g, hg⟩ : ∃ g, ch.getLast? = some g := by
    cases hgl : ch.getLast? with
    | none => exact absurd (List.getLast?_eq_none_iff.mp hgl) hne
    | some g => exact ⟨g, rfl⟩
  have hfm := List.mem_of_head? hf
  have hgm := List.mem_of_getLast? hg
  have hfs : firstStart ch = f.start := by simp [firstStart, hf]
  have hgs : lastStop ch = g.stop := by simp [lastStop, hg]
  have hsz := hok.size
  refine ⟨⟨⟨hchrom, ?_⟩, ⟨hchrom, ?_⟩, ?_, ?_⟩, ?_, ?_, ?_⟩
  · show d.lob < 256 ^ 4
    rw [hlob, hfs]; have := hv f hfm; omega
  · show d.hib < 256 ^ 4
    rw [hhib, hgs]; have := hv g hgm; omega
  · show d.off < 256 ^ 8
    omega
  · show d.size < 256 ^ 8
    omega
  · rw [hitems]; omega
  · intro v hvv
    rw [hitems] at hvv
    have := hv v hvv
    exact ⟨by omega, by omega, this.2.2⟩
  · intro v hvv
    rw [hitems] at hvv
    rw [hlob, hhib]
    exact ⟨firstStart_le ch hsorted v hvv, le_lastStop ch hsorted v hvv⟩

/-! ### the sections are in index order -/

def loOf (x : Nat × Nat × Nat × List Value) : Pos := ⟨x.1, x.2.1⟩

theorem mkDSecs_lo : ∀ (xs : List (Nat × Nat × Nat × List Value)) (base : Nat),
    (mkDSecs base xs).map (fun d => d.sec.lo) = xs.map loOf := by
  intro xs
  induction xs with
  | nil => intro _; rfl
  | cons x xs ih => intro base; simp only [mkDSecs, List.map_cons, ih]; rfl

theorem secsOf_sorted (ips : Nat) (hips : 0 < ips) (id : Nat) (c : ChromIn) (hc : ChromInOK c) :
    ((secsOf ips id c).map loOf).Pairwise (· ≤ ·) := by
  have hs := starts_sorted c.vals hc.sorted (fun v hv => (hc.vals v hv).1)
  rw [← chunks_flatten ips hips c.vals, List.pairwise_flatten] at hs
  simp only [secsOf, List.map_map, List.pairwise_map]
  refine hs.2.imp_of_mem ?_
  intro l1 l2 h1 h2 hr
  show Pos.le ⟨id, firstStart l1⟩ ⟨id, firstStart l2⟩
  right
  refine ⟨rfl, ?_⟩
  have n1 := chunks_ne_nil ips c.vals l1 h1
  have n2 := chunks_ne_nil ips c.vals l2 h2
  cases l1 with
  | nil => exact absurd rfl n1
  | cons a as =>
    cases l2 with
    | nil => exact absurd rfl n2
    | cons b bs =>
      simp only [firstStart, List.head?_cons, Option.map_some, Option.getD_some]
      exact (hr a (by simp) b (by simp)).1

theorem sectionsFrom_sorted (ips : Nat) (hips : 0 < ips) : ∀ (cs : List ChromIn) (id0 : Nat), (∀ c ∈ cs, ChromInOK c) →
    ((sectionsFrom ips id0 cs).map loOf).Pairwise (· ≤ ·) := by
  intro cs
  induction cs with
  | nil => intro _ _; simp [sectionsFrom]
  | cons c cs ih =>
    intro id0 h
    simp only [sectionsFrom, List.map_append, List.pairwise_append]
    refine ⟨secsOf_sorted ips hips id0 c (h c (by simp)), ih (id0 + 1) (fun x hx => h x (by simp [hx])), ?_⟩
    intro p hp q hq
    obtain ⟨x, hx, rfl⟩ := List.mem_map.mp hp
    obtain ⟨y, hy, rfl⟩ := List.mem_map.mp hq
    simp only [secsOf, List.mem_map] at hx
    obtain ⟨ch, _, rfl⟩ := hx
    obtain ⟨_, _, _, _, _, hy1, _⟩ := sectionsFrom_mem ips cs (id0 + 1) y hy
    show Pos.le _ _
    left
    show id0 < y.1
    omega

theorem ds_sorted (ips : Nat) (hips : 0 < ips) (cs : List ChromIn) (h : ∀ c ∈ cs, ChromInOK c) (base : Nat) :
    LoSorted ((mkDSecs base (sectionsFrom ips 0 cs)).map DSec.sec) := by
  unfold LoSorted
  have := sectionsFrom_sorted ips hips cs 0 h
  rw [← mkDSecs_lo _ base, List.pairwise_map] at this
  rw [List.pairwise_map]
  exact this

/-! ### chromosome table -/

def keySizeOf : List ChromIn → Nat
  | [] => 0
  | c :: cs => max c.name.length (keySizeOf cs)

theorem le_keySizeOf : ∀ (cs : List ChromIn), ∀ c ∈ cs, c.name.length ≤ keySizeOf cs := by
  intro cs
  induction cs with
  | nil => intro c h; simp at h
  | cons x xs ih =>
    intro c h
    simp only [List.mem_cons] at h
    simp only [keySizeOf]
    rcases h with rfl | h
    · omega
    · have := ih c h; omega

theorem chromsFrom_names : ∀ (cs : List ChromIn) (id0 : Nat), (chromsFrom id0 cs).map (·.1) = cs.map (·.name) := by
  intro cs
  induction cs with
  | nil => intro _; rfl
  | cons c cs ih => intro id0; simp [chromsFrom, ih]

theorem chromsFrom_length : ∀ (cs : List ChromIn) (id0 : Nat), (chromsFrom id0 cs).length = cs.length := by
  intro cs
  induction cs with
  | nil => intro _; rfl
  | cons c cs ih => intro id0; simp [chromsFrom, ih]

theorem chromsFrom_mem : ∀ (cs : List ChromIn) (id0 : Nat) (x : List Nat × Nat × Nat), x ∈ chromsFrom id0 cs →
    ∃ c ∈ cs, x.1 = c.name ∧ x.2.2 = c.size ∧ id0 ≤ x.2.1 ∧ x.2.1 < id0 + cs.length := by
  intro cs
  induction cs with
  | nil => intro id0 x h; simp [chromsFrom] at h
  | cons c cs ih =>
    intro id0 x h
    simp only [chromsFrom, List.mem_cons] at h
    rcases h with rfl | h
    · exact ⟨c, by simp, rfl, rfl, Nat.le_refl _, by simp⟩
    · obtain ⟨c', hc', h1, h2, h3, h4⟩ := ih (id0 + 1) x h
      exact ⟨c', by simp [hc'], h1, h2, by omega, by simp only [List.length_cons]; omega⟩

theorem mkDSecs_append : ∀ (xs ys : List (Nat × Nat × Nat × List Value)) (b : Nat),
    mkDSecs b (xs ++ ys) = mkDSecs b xs ++ mkDSecs (b + (dataBytes xs).length) ys := by
  intro xs
  induction xs with
  | nil => intro ys b; simp [mkDSecs, dataBytes]
  | cons x xs ihx =>
    intro ys b
    simp only [List.cons_append, mkDSecs, ihx, dataBytes, List.flatMap_cons, List.length_append, Nat.add_assoc]

theorem own_sections (id0 j : Nat) : ∀ (chs : List (List Value)) (b : Nat),
    ((mkDSecs b (chs.map fun ch => (id0, firstStart ch, lastStop ch, ch))).filter fun d => d.chrom = j).flatMap (·.items) =
      if id0 = j then chs.flatten else [] := by
  intro chs
  induction chs with
  | nil => intro b; simp [mkDSecs]
  | cons ch chs ihc =>
    intro b
    simp only [List.map_cons, mkDSecs, List.filter_cons]
    by_cases hj : id0 = j
    · have := ihc (b + (enc1 id0 ch).length)
      simp only [hj, if_true] at this ⊢
      simp only [decide_true, if_true, List.flatMap_cons, List.flatten_cons, this]
    · have := ihc (b + (enc1 id0 ch).length)
      simp only [hj, if_false] at this ⊢
      simp only [decide_false, Bool.false_eq_true, if_false, this]

/-- the values stored for chromosome id `j` are the `j`-th input chromosome's values -/
theorem sections_of_id (ips : Nat) (hips : 0 < ips) : ∀ (cs : List ChromIn) (id0 base j : Nat),
    ((mkDSecs base (sectionsFrom ips id0 cs)).filter fun d => d.chrom = j).flatMap (·.items) =
      if h : id0 ≤ j ∧ j - id0 < cs.length then (cs[j - id0]'h.2).vals else [] := by
  intro cs
  induction cs with
  | nil => intro id0 base j; simp [sectionsFrom, mkDSecs]
  | cons c cs ih =>
    intro id0 base j
    simp only [sectionsFrom, mkDSecs_append, List.filter_append, List.flatMap_append, secsOf]
    rw [own_sections, ih (id0 + 1), chunks_flatten ips hips]
    by_cases hj : id0 = j
    · subst hj
      have h1 : ¬ (id0 + 1 ≤ id0 ∧ id0 - (id0 + 1) < cs.length) := by omega
      have h2 : id0 ≤ id0 ∧ id0 - id0 < (c :: cs).length := by simp
      rw [dif_neg h1, dif_pos h2]
      simp
    · rw [if_neg hj, List.nil_append]
      by_cases hlt : id0 ≤ j ∧ j - id0 < (c :: cs).length
      · have h1 : id0 + 1 ≤ j ∧ j - (id0 + 1) < cs.length := by
          have := hlt.2; simp only [List.length_cons] at this; omega
        rw [dif_pos h1, dif_pos hlt]
        have : j - id0 = (j - (id0 + 1)) + 1 := by omega
        simp only [this, List.getElem_cons_succ]
      · have h1 : ¬ (id0 + 1 ≤ j ∧ j - (id0 + 1) < cs.length) := by
          intro hh; apply hlt; simp only [List.length_cons]; omega
        rw [dif_neg h1, dif_neg hlt]

/-! ### the file of an input -/

structure WOpts where
  ips : Nat
  b : Nat
  zc : Nat
  dof : Nat
  so : Nat
  bs : Nat
  mid : List Nat        -- zoom directory, total summary, data count: whatever the writer puts there
  tail : List Nat       -- zoom data and indexes, trailing magic

/-- the number of items after which the writer cuts a data section: the option, capped by the 16-bit item count of a
section header (`bigwigwrite.rs`, `let max_items = (options.items_per_slot as usize).min(u16::MAX as usize)`; D22) -/
def WOpts.cut (o : WOpts) : Nat := min o.ips 65535

theorem WOpts.cut16 (o : WOpts) : o.cut < 256 ^ 2 := by unfold WOpts.cut; omega
theorem WOpts.cut1 (o : WOpts) (h : 0 < o.ips) : 0 < o.cut := by unfold WOpts.cut; omega

def fileOf (o : WOpts) (cs : List ChromIn) : WigFile :=
  { zoomCount := o.zc, dataOff := o.dof, summaryOff := o.so, bufSize := o.bs, mid := o.mid,
    sections := sectionsFrom o.cut 0 cs, keySize := keySizeOf cs, chromBlockSize := max 256 cs.length,
    chroms := chromsFrom 0 cs, blockSize := o.b, itemsPerSlot := o.ips,
    rootSpan := ((build true o.b ((mkDSecs (64 + o.mid.length) (sectionsFrom o.cut 0 cs)).map DSec.sec)).map
      (spanOf true)).getD ⟨⟨0, 0⟩, ⟨0, 0⟩⟩,
    levels := (levelsOf true o.b ((mkDSecs (64 + o.mid.length) (sectionsFrom o.cut 0 cs)).map DSec.sec)).getD [],
    tail := o.tail }

structure ValidInput (o : WOpts) (cs : List ChromIn) : Prop where
  ips1 : 0 < o.ips
  b2 : 2 ≤ o.b
  b16 : o.b < 256 ^ 2
  zc : o.zc < 256 ^ 2
  zdir : o.zc * 24 ≤ o.mid.length
  nonempty : cs ≠ []
  nchroms : cs.length < 256 ^ 2
  chroms : ∀ c ∈ cs, ChromInOK c
  names : (cs.map (·.name)).Nodup
  ks : keySizeOf cs < 256 ^ 4
  size : (fileOf o cs).bytes.length < 256 ^ 8

theorem sections_ne_nil (ips : Nat) (hips : 0 < ips) (cs : List ChromIn) (hne : cs ≠ []) (h : ∀ c ∈ cs, ChromInOK c) :
    sectionsFrom ips 0 cs ≠ [] := by
  cases cs with
  | nil => exact absurd rfl hne
  | cons c cs =>
    have hc := h c (by simp)
    have := chunks_length_pos ips hips c.vals hc.nonempty
    intro hh
    have hl := congrArg List.length hh
    simp only [sectionsFrom, secsOf, List.length_append, List.length_map, List.length_nil] at hl
    omega

theorem fileOf_valid (o : WOpts) (cs : List ChromIn) (h : ValidInput o cs) : (fileOf o cs).Valid := by
  have hsne := sections_ne_nil o.cut (o.cut1 h.ips1) cs h.nonempty h.chroms
  have hdsne : mkDSecs (64 + o.mid.length) (sectionsFrom o.cut 0 cs) ≠ [] := by
    cases hs : sectionsFrom o.cut 0 cs with
    | nil => exact absurd hs hsne
    | cons x xs => simp [mkDSecs]
  have hbytes : 64 + o.mid.length + (dataBytes (sectionsFrom o.cut 0 cs)).length ≤ (fileOf o cs).bytes.length := by
    simp only [WigFile.bytes, fileOf, List.length_append, wigHeaderBytes_length]
    omega
  refine
    { zc := h.zc, zdir := h.zdir, size := h.size, ks := h.ks
      nchroms := by show (chromsFrom 0 cs).length < _; rw [chromsFrom_length]; exact h.nchroms
      chromsOK := ?_, names := ?_, b2 := h.b2, b16 := h.b16, nonempty := hsne, secsOK := ?_, sorted := ?_, levels := ?_ }
  · intro x hx
    obtain ⟨c, hc, h1, h2, _, h4⟩ := chromsFrom_mem cs 0 x hx
    have hok := h.chroms c hc
    have hn := h.nchroms
    refine ⟨?_, ?_, ?_, ?_⟩
    · rw [h1]; exact le_keySizeOf cs c hc
    · rw [h1]; exact hok.name
    · omega
    · rw [h2]; exact hok.size
  · show ((chromsFrom 0 cs).map (·.1)).Nodup
    rw [chromsFrom_names]; exact h.names
  · exact section_ok o.cut o.cut16 cs h.chroms h.nchroms (64 + o.mid.length) _ hbytes h.size
  · exact ds_sorted o.cut (o.cut1 h.ips1) cs h.chroms _
  · show levelsOf true o.b _ = some ((levelsOf true o.b _).getD [])
    obtain ⟨Ls, hLs⟩ := levelsOf_some o.b h.b2 ((mkDSecs (64 + o.mid.length) (sectionsFrom o.cut 0 cs)).map DSec.sec)
      (by simpa using hdsne)
    have : (fileOf o cs).ds = mkDSecs (64 + o.mid.length) (sectionsFrom o.cut 0 cs) := rfl
    rw [this, hLs]; rfl

theorem chromsFrom_get : ∀ (cs : List ChromIn) (id0 j : Nat) (hj : j < cs.length),
    (cs[j].name, id0 + j, cs[j].size) ∈ chromsFrom id0 cs := by
  intro cs
  induction cs with
  | nil => intro _ j hj; simp at hj
  | cons c cs ih =>
    intro id0 j hj
    cases j with
    | zero => simp [chromsFrom]
    | succ j =>
      simp only [chromsFrom, List.getElem_cons_succ, List.mem_cons]
      right
      have := ih (id0 + 1) j (by simpa using hj)
      rwa [show id0 + 1 + j = id0 + (j + 1) by omega] at this

/-- **C01 for the model writer (little-endian, uncompressed): write, then read.** For every valid input (any
    number of chromosomes with distinct names, each with sorted, disjoint, non-empty values inside the
    chromosome), every `items_per_slot ≥ 1`, fan-out `≥ 2`, and whatever the writer puts in the zoom /
    summary areas: querying any chromosome `j` over any range on the written bytes returns exactly that
    chromosome's input values that strictly overlap the range, clipped to it, in order. -/
theorem wig_model_roundtrip (o : WOpts) (cs : List ChromIn) (h : ValidInput o cs) (j : Nat) (hj : j < cs.length)
    (qs qe : Nat) :
    ∃ fuel₀, ∀ fuel, fuel₀ ≤ fuel →
      getIntervalF fuel (fileOf o cs).bytes (cs[j].name.map UInt8.ofNat) qs qe =
        .ok (cs[j].vals.filterMap (keepClip qs qe)) := by
  have hv := fileOf_valid o cs h
  have hmem : (cs[j].name, j, cs[j].size) ∈ (fileOf o cs).chroms := by
    have := chromsFrom_get cs 0 j hj
    rw [Nat.zero_add] at this
    exact this
  obtain ⟨fuel₀, hf⟩ := wig_file_roundtrip (fileOf o cs) hv (cs[j].name, j, cs[j].size) hmem qs qe
  refine ⟨fuel₀, fun fuel hfuel => ?_⟩
  rw [hf fuel hfuel]
  have : (fileOf o cs).ds = mkDSecs (64 + o.mid.length) (sectionsFrom o.cut 0 cs) := rfl
  rw [this, sections_of_id o.cut (o.cut1 h.ips1) cs 0 _ j]
  simp [hj]

/-! ### the hypotheses are satisfiable -/

def cs1 : List ChromIn := [⟨[97], 100, [⟨0, 10, 5⟩, ⟨20, 30, 6⟩]⟩, ⟨[98, 99], 50, [⟨5, 6, 7⟩]⟩]
def o1 : WOpts := ⟨1, 2, 0, 344, 304, 0, [], []⟩

/-- the hypotheses of `wig_model_roundtrip` are satisfiable: two chromosomes, three values, one item per slot -/
example : ValidInput o1 cs1 where
  ips1 := by decide
  b2 := by decide
  b16 := by decide
  zc := by decide
  zdir := by decide
  nonempty := by decide
  nchroms := by decide
  chroms := by
    intro c hc
    simp only [cs1, List.mem_cons, List.not_mem_nil, or_false] at hc
    rcases hc with rfl | rfl
    · exact ⟨by decide, by decide, by decide, by decide, by decide⟩
    · exact ⟨by decide, by decide, by decide, by decide, by decide⟩
  names := by decide
  ks := by decide
  size := by decide +kernel

end BBI
