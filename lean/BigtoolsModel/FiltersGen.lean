import BigtoolsModel.Generated.Funcs
import BigtoolsModel.WigSections
import BigtoolsModel.BedQueryBytes
import BigtoolsModel.ZoomQueryBytes
/-! The range filters of the block decoders — the `if` conditions in `get_block_values` (three section types),
    `get_block_entries` and `get_zoom_block_values` (two byte orders) that mention both query bounds, and the clipping
    assignments of the bigWig decoder — are REGENERATED from the Rust source on every run (`Generated/Funcs.lean`,
    tools/rs2lean.py). These theorems say that each is the filter the model's query theorems are stated with. -/
namespace BBI
open CD

set_option linter.unusedSimpArgs false

-- one normalising script for all of them (wider than today's source needs: it must also survive equivalent rewrites)
macro "filters_norm" : tactic => `(tactic|
  (simp only [Bool.and_eq_true, Bool.or_eq_true, Bool.not_eq_true', decide_eq_true_eq, decide_eq_false_iff_not,
      Bool.if_false_left, Bool.if_false_right, Bool.if_true_left, Bool.if_true_right, Bool.false_eq_true, ge_iff_le, gt_iff_lt]))

theorem gen_wig_filter_0 (qs qe : Nat) (v : Value) :
    (if Gen.wig_keep_0 v.start v.stop qs qe
      then some { v with start := Gen.wig_clip_start_0 v.start v.stop qs qe, stop := Gen.wig_clip_end_0 v.start v.stop qs qe }
      else none) = keepClip qs qe v := by
  unfold keepClip
  delta Gen.wig_keep_0 Gen.wig_clip_start_0 Gen.wig_clip_end_0
  first
  | grind
  | (by_cases h : v.stop > qs ∧ v.start < qe
     · rw [if_pos h, if_pos (by filters_norm; omega)]
       all_goals (congr 2 <;> omega)
     · rw [if_neg h, if_neg (by filters_norm; omega)])

theorem gen_wig_filter_1 (qs qe : Nat) (v : Value) :
    (if Gen.wig_keep_1 v.start v.stop qs qe
      then some { v with start := Gen.wig_clip_start_1 v.start v.stop qs qe, stop := Gen.wig_clip_end_1 v.start v.stop qs qe }
      else none) = keepClip qs qe v := by
  unfold keepClip
  delta Gen.wig_keep_1 Gen.wig_clip_start_1 Gen.wig_clip_end_1
  first
  | grind
  | (by_cases h : v.stop > qs ∧ v.start < qe
     · rw [if_pos h, if_pos (by filters_norm; omega)]
       all_goals (congr 2 <;> omega)
     · rw [if_neg h, if_neg (by filters_norm; omega)])

theorem gen_wig_filter_2 (qs qe : Nat) (v : Value) :
    (if Gen.wig_keep_2 v.start v.stop qs qe
      then some { v with start := Gen.wig_clip_start_2 v.start v.stop qs qe, stop := Gen.wig_clip_end_2 v.start v.stop qs qe }
      else none) = keepClip qs qe v := by
  unfold keepClip
  delta Gen.wig_keep_2 Gen.wig_clip_start_2 Gen.wig_clip_end_2
  first
  | grind
  | (by_cases h : v.stop > qs ∧ v.start < qe
     · rw [if_pos h, if_pos (by filters_norm; omega)]
       all_goals (congr 2 <;> omega)
     · rw [if_neg h, if_neg (by filters_norm; omega)])

theorem gen_bed_filter (qs qe : Nat) (x : Entry) : Gen.bed_keep x.s x.e qs qe = bedKeep qs qe x := by
  rw [Bool.eq_iff_iff]
  delta Gen.bed_keep
  unfold bedKeep
  first | grind | (filters_norm; all_goals omega)

theorem gen_zoom_filter_0 (c qs qe : Nat) (r : ZRec) : Gen.zoom_keep_0 r.chrom c r.start r.stop qs qe = zKeep c qs qe r := by
  rw [Bool.eq_iff_iff]
  delta Gen.zoom_keep_0
  unfold zKeep
  first | grind | (filters_norm; all_goals omega)

theorem gen_zoom_filter_1 (c qs qe : Nat) (r : ZRec) : Gen.zoom_keep_1 r.chrom c r.start r.stop qs qe = zKeep c qs qe r := by
  rw [Bool.eq_iff_iff]
  delta Gen.zoom_keep_1
  unfold zKeep
  first | grind | (filters_norm; all_goals omega)

end BBI
