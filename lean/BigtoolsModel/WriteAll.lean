/-! # Destinations that accept part of a buffer (`std::io::Write`), `write` and `write_all`

`Write::write(buf)` may consume any non-empty prefix of `buf` and reports how many bytes it took; `write_all` calls it until
nothing is left. The writer models (`BBIWrite`, `BBIWriteBed`, `TempBuf`, `FileOf`) append whole buffers to the destination:
that is what `write_all` (and `io::copy`, which loops the same way) achieves on EVERY destination, and what a bare `write` whose
count is ignored achieves only on destinations that happen to take everything. `WA.writeAll_delivers` is the first statement,
`WA.write_delivers_iff` the second; the regenerated list of bare `write` calls on a destination in the library's writer modules
(`Gen.wr_bare_write_<file>`, obligations `WA.gen_no_bare_write_<file>` in `WriteGen*.lean`) is empty, which is what makes the models' whole-buffer appends
the behaviour of the code for every `W: Write`. -/
namespace WA

/-- a destination: what it holds, and how much one `write` call accepts at most (`take ≥ 1`: a `write` that accepts nothing of a
    non-empty buffer is an error for `write_all`, `ErrorKind::WriteZero`) -/
structure Sink where
  data : List Nat
  take : Nat

/-- one `write` call: appends the accepted prefix, reports its length -/
def Sink.write (s : Sink) (buf : List Nat) : Sink × Nat :=
  let k := min buf.length s.take
  ({ s with data := s.data ++ buf.take k }, k)

/-- `write_all`: `write` until the buffer is empty (fuel = an upper bound on the number of calls) -/
def writeAllFuel : Nat → Sink → List Nat → Sink
  | 0, s, _ => s
  | fuel + 1, s, buf =>
    if buf = [] then s else
      let (s', k) := s.write buf
      writeAllFuel fuel s' (buf.drop k)

def writeAll (s : Sink) (buf : List Nat) : Sink := writeAllFuel (buf.length + 1) s buf

theorem writeAllFuel_delivers (fuel : Nat) : ∀ (s : Sink) (buf : List Nat), 0 < s.take → buf.length < fuel →
    (writeAllFuel fuel s buf).data = s.data ++ buf ∧ (writeAllFuel fuel s buf).take = s.take := by
  induction fuel with
  | zero => intro s buf _ h; omega
  | succ fuel ih =>
    intro s buf ht hl
    unfold writeAllFuel
    by_cases hb : buf = []
    · simp [hb]
    · simp only [hb, if_false, Sink.write]
      have hpos : 0 < buf.length := List.length_pos_iff.mpr hb
      have hk : 0 < min buf.length s.take := by omega
      have := ih { s with data := s.data ++ buf.take (min buf.length s.take) } (buf.drop (min buf.length s.take)) ht
        (by simp only [List.length_drop]; omega)
      simp only at this
      rw [this.1, this.2, List.append_assoc, List.take_append_drop]
      exact ⟨rfl, rfl⟩

/-- **`write_all` delivers the whole buffer to every destination**, however little each call accepts -/
theorem writeAll_delivers (s : Sink) (buf : List Nat) (h : 0 < s.take) : (writeAll s buf).data = s.data ++ buf :=
  (writeAllFuel_delivers (buf.length + 1) s buf h (by omega)).1

/-- a sequence of buffers, each through `write_all`: the destination ends with their concatenation -/
theorem writeAll_sequence (s : Sink) (h : 0 < s.take) (bufs : List (List Nat)) :
    (bufs.foldl writeAll s).data = s.data ++ bufs.flatten := by
  induction bufs generalizing s with
  | nil => simp
  | cons b bs ih =>
    have h1 := writeAllFuel_delivers (b.length + 1) s b h (by omega)
    have := ih (writeAll s b) (by unfold writeAll; rw [h1.2]; exact h)
    simp only [List.foldl_cons, List.flatten_cons]
    rw [this]
    unfold writeAll
    rw [h1.1, List.append_assoc]

/-- **a bare `write` delivers the whole buffer exactly when the destination takes that much in one call** -/
theorem write_delivers_iff (s : Sink) (buf : List Nat) : (s.write buf).1.data = s.data ++ buf ↔ buf.length ≤ s.take := by
  simp only [Sink.write]
  constructor
  · intro h
    have h2 := congrArg List.length h
    simp only [List.length_append, List.length_take] at h2
    omega
  · intro h
    rw [Nat.min_eq_left h, List.take_length]

/-- non-vacuity: a destination that takes 4 bytes per call loses the tail of a 6-byte buffer written with a bare `write`, and
    receives all of it through `write_all` -/
example : (Sink.write ⟨[9], 4⟩ [1, 2, 3, 4, 5, 6]).1.data = [9, 1, 2, 3, 4] ∧ (writeAll ⟨[9], 4⟩ [1, 2, 3, 4, 5, 6]).data = [9, 1, 2, 3, 4, 5, 6] := by
  decide

end WA
