import BigtoolsModel.Tiler2
import BigtoolsModel.Sweep
import BigtoolsModel.FView
import BigtoolsModel.IndexerFix
import BigtoolsModel.Chunker
import BigtoolsModel.SummaryFold
import BigtoolsModel.BedSummary
import BigtoolsModel.Stats2
import BigtoolsModel.ZoomLevels
import BigtoolsModel.AtomsNorm
namespace ST

/-- the accumulation of `stats_for_bed_item` over one clipped value -/
theorem gen_region_stats_atoms (n v a b : Int) :
    Gen.st_bases_add n v a b = n ∧ Gen.st_sum_add n v a b = n * v ∧ Gen.st_min n v a b = min a v ∧ Gen.st_max n v a b = max b v := by
  delta Gen.st_bases_add Gen.st_sum_add Gen.st_min Gen.st_max
  refine ⟨?_, ?_, ?_, ?_⟩ <;> first | rfl | omega | grind

end ST
