/-! # Conversion of an unsigned integer to a binary floating-point format, as a function on `Nat`

`n as f32` / `n as f64` in Rust rounds the integer to the nearest value with a 24-bit / 53-bit significand (ties to
even). The value of the result, as a natural number, is `FR.round p n`. The regenerated expressions
(`Generated/Atoms.lean`) use `FR.f32` / `FR.f64` wherever the Rust source casts an integer expression to a float, so that a
cast the model does not have shows up in the proof obligation (`AtomsGen.lean`) instead of vanishing in translation:
the obligations are stated with exact integers, and `FR.f32` is the identity only below 2^24 (`f32_exact`). -/
namespace FR

/-- number of binary digits of `n` (0 for 0) -/
def bits (n : Nat) : Nat := if n = 0 then 0 else Nat.log2 n + 1

/-- `n` rounded to `p` significant binary digits, ties to even -/
def round (p n : Nat) : Nat :=
  if bits n ≤ p then n else
    let sh := bits n - p
    let q := n / 2 ^ sh
    let r := n % 2 ^ sh
    let half := 2 ^ (sh - 1)
    let q' := if r > half ∨ (r = half ∧ q % 2 = 1) then q + 1 else q
    q' * 2 ^ sh

def f32 (n : Nat) : Nat := round 24 n
def f64 (n : Nat) : Nat := round 53 n

theorem bits_le_of_lt (n p : Nat) (h : n < 2 ^ p) : bits n ≤ p := by
  unfold bits
  split
  · omega
  · rename_i h0
    have := (Nat.log2_lt h0).2 h
    omega

/-- below `2^p` the conversion is exact -/
theorem round_exact (p n : Nat) (h : n < 2 ^ p) : round p n = n := by
  unfold round
  simp [bits_le_of_lt n p h]

theorem f32_exact (n : Nat) (h : n < 2 ^ 24) : f32 n = n := round_exact 24 n h
theorem f64_exact (n : Nat) (h : n < 2 ^ 53) : f64 n = n := round_exact 53 n h

/-- every `u32` (and every sum of fewer than 2^21 of them) converts to `f64` exactly -/
theorem f64_exact_u32 (n : Nat) (h : n < 2 ^ 32) : f64 n = n :=
  f64_exact n (Nat.lt_of_lt_of_le h (by decide))

/-- `x as u8` / `as u16` / `as u32` from a wider unsigned type: the low bits -/
def u8 (n : Nat) : Nat := n % 2 ^ 8
def u16 (n : Nat) : Nat := n % 2 ^ 16
def u32 (n : Nat) : Nat := n % 2 ^ 32

theorem u32_exact (n : Nat) (h : n < 2 ^ 32) : u32 n = n := Nat.mod_eq_of_lt h
theorem u16_exact (n : Nat) (h : n < 2 ^ 16) : u16 n = n := Nat.mod_eq_of_lt h
example : u32 (2 ^ 32 + 4101) = 4101 := by decide

/-- the first integer `f32` cannot hold: 2^24 + 1 becomes 2^24 -/
example : f32 (2 ^ 24 + 1) = 2 ^ 24 := by decide
example : f32 (2 ^ 24 + 3) = 2 ^ 24 + 4 := by decide
example : f32 16777217 ≠ 16777217 := by decide

end FR
