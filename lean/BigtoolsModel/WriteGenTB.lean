import BigtoolsModel.Generated.Atoms
import BigtoolsModel.WriteAll
/-! Obligation on the regenerated list of bare `write` calls of tempfilebuffer.rs (the replay of a staged buffer into the real destination); one module per source file so that a property depends
    only on the files its writer goes through. -/
namespace WA

/-- no function of tempfilebuffer.rs hands a buffer to a destination with a bare `write`: everything goes through `write_all` / `io::copy` -/
theorem gen_no_bare_write_tempfilebuffer : Gen.wr_bare_write_tempfilebuffer = [] := by
  delta Gen.wr_bare_write_tempfilebuffer
  rfl

end WA
