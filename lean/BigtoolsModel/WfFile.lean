import BigtoolsModel.BBIRead
/-! Probe (C09): a decidable well-formedness check of a BBI byte image against the published format,
    independent of how bigtools reads its own files. Uncompressed blocks only in this probe. -/
namespace BBI

def cmpLe (c1 b1 c2 b2 : Nat) : Bool := c1 < c2 || (c1 == c2 && b1 ≤ b2)

structure NodeSpan where
  sc : Nat
  sb : Nat
  ec : Nat
  eb : Nat
deriving Repr

def NodeSpan.contains (outer inner : NodeSpan) : Bool :=
  cmpLe outer.sc outer.sb inner.sc inner.sb && cmpLe inner.ec inner.eb outer.ec outer.eb

structure Leaf where
  span : NodeSpan
  offset : Nat
  size : Nat
deriving Repr

/-- walk the whole index; returns the leaves in depth-first order, or the first structural problem -/
def walkIndex (e : Endian) (s : Src) (blockSize : Nat) : Nat → Nat → Option NodeSpan → Except String (List Leaf)
  | 0, _, _ => .error "index: out of fuel"
  | fuel + 1, off, expect => do
    if off + 4 > s.size then throw s!"index node at {off}: beyond end of file"
    let isLeaf := byte s off
    if isLeaf ≠ 0 ∧ isLeaf ≠ 1 then throw s!"index node at {off}: isLeaf = {isLeaf}"
    if byte s (off + 1) ≠ 0 then throw s!"index node at {off}: reserved byte not zero"
    let count := u16 e s (off + 2)
    if count = 0 then throw s!"index node at {off}: empty node"
    if count > blockSize then throw s!"index node at {off}: {count} items exceed block size {blockSize}"
    if isLeaf = 1 then
      if off + 4 + count * 32 > s.size then throw s!"leaf node at {off}: truncated"
      let leaves := (List.range count).map fun i =>
        let b := off + 4 + i * 32
        ({ span := ⟨u32 e s b, u32 e s (b + 4), u32 e s (b + 8), u32 e s (b + 12)⟩,
           offset := u64 e s (b + 16), size := u64 e s (b + 24) } : Leaf)
      match expect with
      | some sp =>
        if leaves.all (fun l => sp.contains l.span) then pure leaves
        else throw s!"leaf node at {off}: an item is not contained in the span its parent records"
      | none => pure leaves
    else
      if off + 4 + count * 24 > s.size then throw s!"non-leaf node at {off}: truncated"
      let kids := (List.range count).map fun i =>
        let b := off + 4 + i * 24
        ((⟨u32 e s b, u32 e s (b + 4), u32 e s (b + 8), u32 e s (b + 12)⟩ : NodeSpan), u64 e s (b + 16))
      match expect with
      | some sp =>
        if !kids.all (fun k => sp.contains k.1) then
          throw s!"non-leaf node at {off}: a child span is not contained in the span its parent records"
      | none => pure ()
      let rec go : List (NodeSpan × Nat) → Except String (List Leaf)
        | [] => pure []
        | k :: ks => do
          let a ← walkIndex e s blockSize fuel k.2 (some k.1)
          let b ← go ks
          pure (a ++ b)
      go kids

structure IndexReport where
  blockSize : Nat
  itemCount : Nat
  bounds : NodeSpan
  itemsPerSlot : Nat
  leaves : List Leaf
deriving Repr

def checkIndex (e : Endian) (s : Src) (off : Nat) : Except String IndexReport := do
  if off + 48 > s.size then throw "index header beyond end of file"
  if u32 e s off ≠ CIR_TREE_MAGIC then throw "index magic"
  let blockSize := u32 e s (off + 4)
  let itemCount := u64 e s (off + 8)
  let bounds : NodeSpan := ⟨u32 e s (off + 16), u32 e s (off + 20), u32 e s (off + 24), u32 e s (off + 28)⟩
  let itemsPerSlot := u32 e s (off + 40)
  let leaves ← walkIndex e s blockSize (s.size + 1) (off + 48) (some bounds)
  if leaves.length ≠ itemCount then throw s!"index: header says {itemCount} items, tree holds {leaves.length}"
  -- leaves in file order, spans in non-decreasing start order
  let rec sortedBy : List Leaf → Bool
    | a :: b :: rest => cmpLe a.span.sc a.span.sb b.span.sc b.span.sb && a.offset + a.size ≤ b.offset && sortedBy (b :: rest)
    | _ => true
  if !sortedBy leaves then throw "index: leaves out of order or overlapping in the file"
  pure { blockSize, itemCount, bounds, itemsPerSlot, leaves }

/-- a bigWig data block: type-1 section whose items lie inside the advertised span, one chromosome,
    at most `itemsPerSlot` items, sorted and non-overlapping -/
def checkWigBlock (e : Endian) (s : Src) (l : Leaf) (itemsPerSlot : Nat) : Except String (List (Nat × Value)) := do
  if l.offset + l.size > s.size then throw s!"block at {l.offset}: beyond end of file"
  if l.size < 24 then throw s!"block at {l.offset}: shorter than a section header"
  let o := l.offset
  let chrom := u32 e s o
  let secStart := u32 e s (o + 4)
  let secEnd := u32 e s (o + 8)
  let ty := byte s (o + 20)
  let n := u16 e s (o + 22)
  if ty ≠ 1 then throw s!"block at {o}: section type {ty} (bigtools writes type 1)"
  if l.size ≠ 24 + n * 12 then throw s!"block at {o}: size {l.size} ≠ 24 + 12·{n}"
  if n = 0 ∨ n > itemsPerSlot then throw s!"block at {o}: {n} items, itemsPerSlot {itemsPerSlot}"
  if l.span.sc ≠ chrom ∨ l.span.ec ≠ chrom then throw s!"block at {o}: index chromosome differs from section chromosome"
  if l.span.sb ≠ secStart ∨ l.span.eb ≠ secEnd then throw s!"block at {o}: index span differs from section header span"
  let items := (List.range n).map fun i =>
    (⟨u32 e s (o + 24 + 12 * i), u32 e s (o + 24 + 12 * i + 4), u32 e s (o + 24 + 12 * i + 8)⟩ : Value)
  if !items.all (fun v => secStart ≤ v.start ∧ v.start ≤ v.stop ∧ v.stop ≤ secEnd) then
    throw s!"block at {o}: an item lies outside the section span"
  let rec sorted : List Value → Bool
    | a :: b :: rest => a.stop ≤ b.start && sorted (b :: rest)
    | _ => true
  if !sorted items then throw s!"block at {o}: items overlap or are out of order"
  pure (items.map fun v => (chrom, v))

structure WigReport where
  header : Header
  chroms : List Chrom
  index : IndexReport
  values : List (Nat × Value)
  zoomIndexes : List (Nat × IndexReport)
deriving Repr

def checkBigWig (s : Src) : Except String WigReport := do
  let h ← match readHeader s with
    | .ok h => pure h
    | .error err => throw s!"header: {repr err}"
  if h.kind ≠ .bigWig then throw "not a bigWig"
  if h.version ≠ 4 then throw s!"version {h.version}"
  if h.zoomLevels > 10 then throw "more than 10 zoom levels"
  if h.fieldCount ≠ 0 ∨ h.definedFieldCount ≠ 0 ∨ h.autoSqlOffset ≠ 0 then throw "bigWig with bigBed header fields"
  if u64 h.endian s 56 ≠ 0 then throw "reserved header field not zero"
  if s.size < 4 ∨ u32 h.endian s (s.size - 4) ≠ BIGWIG_MAGIC then throw "trailing magic missing"
  -- regions in file order: summary, data count, data, chrom tree, index, zooms
  if !(64 + h.zoomLevels * 24 ≤ h.totalSummaryOffset ∧ h.totalSummaryOffset + 40 ≤ h.fullDataOffset ∧
       h.fullDataOffset + 8 ≤ h.chromTreeOffset ∧ h.chromTreeOffset < h.fullIndexOffset ∧ h.fullIndexOffset < s.size) then
    throw "header offsets inconsistent"
  let chroms ← match readChroms h s with
    | .ok c => pure c
    | .error err => throw s!"chrom tree: {repr err}"
  if (chroms.map (·.id)) ≠ List.range chroms.length then throw "chromosome ids are not 0..n-1 in order"
  let idx ← checkIndex h.endian s h.fullIndexOffset
  let dataCount := u64 h.endian s h.fullDataOffset
  if dataCount ≠ idx.leaves.length then throw s!"data count {dataCount} ≠ number of sections {idx.leaves.length}"
  -- data blocks are contiguous from fullDataOffset + 8 up to the chromosome tree
  match idx.leaves.head? with
  | some l0 => if l0.offset ≠ h.fullDataOffset + 8 then throw "first block does not follow the data count"
  | none => throw "no data blocks"
  let rec blocks : List Leaf → Except String (List (Nat × Value))
    | [] => pure []
    | l :: ls => do
      let a ← checkWigBlock h.endian s l idx.itemsPerSlot
      let b ← blocks ls
      pure (a ++ b)
  let values ← blocks idx.leaves
  if !(values.all fun cv => match chroms.find? (·.id = cv.1) with
        | some c => cv.2.stop ≤ c.length
        | none => false) then throw "a value lies beyond its chromosome"
  -- zoom directory strictly increasing; each zoom index structurally valid
  let rec incr : List ZoomHdr → Bool
    | a :: b :: rest => a.reduction < b.reduction && a.dataOffset < b.dataOffset && incr (b :: rest)
    | _ => true
  if !incr h.zooms then throw "zoom directory not strictly increasing"
  let rec zooms : List ZoomHdr → Except String (List (Nat × IndexReport))
    | [] => pure []
    | z :: zs => do
      if !(z.dataOffset < z.indexOffset ∧ z.indexOffset < s.size) then throw s!"zoom {z.reduction}: offsets"
      let r ← checkIndex h.endian s z.indexOffset
      let rest ← zooms zs
      pure ((z.reduction, r) :: rest)
  let zi ← zooms h.zooms
  pure { header := h, chroms, index := idx, values, zoomIndexes := zi }

end BBI

namespace BBI

/-- bigBed block: records `chrom start end rest\0`, one chromosome, sorted by start, every record inside the
    advertised span -/
def bedRecords (e : Endian) (s : Src) : Nat → Nat → Nat → Except String (List (Nat × Nat × Nat))
  | 0, _, _ => .error "bed block: out of fuel"
  | fuel + 1, off, stop =>
    if off = stop then .ok []
    else if off + 12 > stop then .error s!"bed block: {stop - off} trailing bytes"
    else
      let chrom := u32 e s off
      let st := u32 e s (off + 4)
      let en := u32 e s (off + 8)
      -- find the NUL
      let rec nul : Nat → Nat → Option Nat
        | 0, _ => none
        | f + 1, p => if p ≥ stop then none else if byte s p = 0 then some p else nul f (p + 1)
      match nul (stop - off) (off + 12) with
      | none => .error s!"bed record at {off}: rest field not NUL-terminated"
      | some z =>
        match bedRecords e s fuel (z + 1) stop with
        | .ok more => .ok ((chrom, st, en) :: more)
        | .error err => .error err

def checkBedBlock (e : Endian) (s : Src) (l : Leaf) (itemsPerSlot : Nat) : Except String (List (Nat × Nat × Nat)) := do
  if l.offset + l.size > s.size then throw s!"block at {l.offset}: beyond end of file"
  let recs ← bedRecords e s (l.size + 1) l.offset (l.offset + l.size)
  if recs.length = 0 ∨ recs.length > itemsPerSlot then throw s!"block at {l.offset}: {recs.length} records, itemsPerSlot {itemsPerSlot}"
  if !recs.all (fun r => r.1 = l.span.sc ∧ r.1 = l.span.ec) then throw s!"block at {l.offset}: record chromosome differs from the index"
  if !recs.all (fun r => l.span.sb ≤ r.2.1 ∧ r.2.1 ≤ r.2.2 ∧ r.2.2 ≤ l.span.eb) then
    throw s!"block at {l.offset}: a record lies outside the span the index advertises ({l.span.sb}..{l.span.eb})"
  let rec sorted : List (Nat × Nat × Nat) → Bool
    | a :: b :: rest => a.2.1 ≤ b.2.1 && sorted (b :: rest)
    | _ => true
  if !sorted recs then throw s!"block at {l.offset}: records not sorted by start"
  pure recs

def checkBigBedData (s : Src) : Except String (Nat × Nat) := do
  let h ← match readHeader s with
    | .ok h => pure h
    | .error err => throw s!"header: {repr err}"
  if h.kind ≠ .bigBed then throw "not a bigBed"
  let idx ← checkIndex h.endian s h.fullIndexOffset
  let rec blocks : List Leaf → Except String Nat
    | [] => pure 0
    | l :: ls => do
      let a ← checkBedBlock h.endian s l idx.itemsPerSlot
      let b ← blocks ls
      pure (a.length + b)
  let n ← blocks idx.leaves
  if u64 h.endian s h.fullDataOffset ≠ n then throw s!"item count {u64 h.endian s h.fullDataOffset} ≠ records {n}"
  pure (idx.leaves.length, n)

end BBI
