import BigtoolsModel.AtomsNorm
import BigtoolsModel.TempBuf2
/-! The length the staging buffer reports (`TempFileBuffer::len`, tempfilebuffer.rs): in-memory staging answers with the length of the
    staged vector, a buffer nothing was written to with 0 (the temp-file arm asks the file for its position — the operating system's
    answer, outside the model). The model's `TB.lenNow` reports `(stagedOf fs).length`; the regenerated expressions are that number,
    with no narrowing on the way (a cast through `u32` — `FR.u32`, the low 32 bits — would differ from 2^32 staged bytes on: the zoom
    levels of a large file are staged in one such buffer each). -/
namespace TB

theorem gen_len_atoms (n : Nat) : Gen.tb_len_inmem n = n ∧ Gen.tb_len_notstarted = 0 := by
  delta Gen.tb_len_inmem Gen.tb_len_notstarted
  refine ⟨?_, ?_⟩ <;> first | rfl | omega | grind

/-- `len()` with the source's expressions, on the model's closed-buffer states -/
def lenGen (s : St) : Obs Nat :=
  match s.closed with
  | none => .blocked
  | some (.real _) => .panic
  | some .notStarted => .ok Gen.tb_len_notstarted
  | some fs => .ok (Gen.tb_len_inmem (stagedOf fs).length)

theorem gen_len_is_the_models (s : St) : lenGen s = lenNow s := by
  unfold lenGen lenNow
  cases h : s.closed with
  | none => rfl
  | some fs =>
    cases fs with
    | real d => rfl
    | notStarted => simp [(gen_len_atoms 0).2, stagedOf]
    | staged m bs => simp [(gen_len_atoms _).1]

end TB
