import BigtoolsModel.Tiler2
import BigtoolsModel.Sweep
import BigtoolsModel.FView
import BigtoolsModel.IndexerFix
import BigtoolsModel.Chunker
import BigtoolsModel.SummaryFold
import BigtoolsModel.BedSummary
import BigtoolsModel.Stats2
import BigtoolsModel.ZoomLevels
import BigtoolsModel.AtomsNorm
namespace CH

/-- the chunking loop with the source's arithmetic: after the cut at the next line end, the tuple update, the clamp to the file
    size and the exit test -/
def loopGen (ls : List Nat) (fileSize chunks chunkSize : Nat) : Nat → Nat → Nat → List (Nat × Nat)
  | 0, _, _ => []
  | fuel + 1, start, end_ =>
    let lineEnd := lineEndAfter 0 ls end_
    let start' := Gen.ch_next_start fileSize chunks chunkSize start lineEnd
    let raw := Gen.ch_next_end_raw fileSize chunks chunkSize start lineEnd
    let end' := Gen.ch_clamp_end fileSize chunks chunkSize start' raw
    (start, lineEnd) :: (if Gen.ch_done fileSize chunks chunkSize start' end' then [] else loopGen ls fileSize chunks chunkSize fuel start' end')

def splitGen (ls : List Nat) (chunks : Nat) : List (Nat × Nat) :=
  let fileSize := size ls
  let chunkSize := Gen.ch_size fileSize chunks 0 0 0
  loopGen ls fileSize chunks chunkSize (fileSize + 1) 0 (Gen.ch_first_end fileSize chunks chunkSize 0 0)

theorem gen_ch_atoms (fs n cs a b : Nat) :
    Gen.ch_size fs n cs a b = fs / n ∧ Gen.ch_first_end fs n cs a b = cs ∧ Gen.ch_next_start fs n cs a b = b ∧
    Gen.ch_next_end_raw fs n cs a b = max b (a + cs + cs) ∧ Gen.ch_clamp_end fs n cs a b = min b fs ∧
    Gen.ch_done fs n cs a b = decide (a ≥ fs) := by
  delta Gen.ch_size Gen.ch_first_end Gen.ch_next_start Gen.ch_next_end_raw Gen.ch_clamp_end Gen.ch_done
  refine ⟨?_, ?_, ?_, ?_, ?_, ?_⟩ <;> first | rfl | omega | grind | (rw [Bool.eq_iff_iff]; atoms_norm; omega)

/-- **Size-based chunking.** `split_file_into_chunks_by_size` with the source's arithmetic is the model's `split` — the function
    `chunks_cover_exactly_once_at_line_starts` and `chunks_partition_lines` (C18, C17) are about. -/
theorem gen_chunker (ls : List Nat) (chunks : Nat) : splitGen ls chunks = split ls chunks := by
  have hl : ∀ (fs cs fuel a b : Nat), loopGen ls fs chunks cs fuel a b = loop ls fs cs fuel a b := by
    intro fs cs fuel
    induction fuel with
    | zero => intros; rfl
    | succ n ih =>
      intro a b
      have h := fun x y => gen_ch_atoms fs chunks cs x y
      simp only [loopGen, loop, (h _ _).2.2.1, (h _ _).2.2.2.1, (h _ _).2.2.2.2.1, (h _ _).2.2.2.2.2, ih, decide_eq_true_eq]
  unfold splitGen split
  simp only [(gen_ch_atoms _ _ _ _ _).1, (gen_ch_atoms _ _ _ _ _).2.1, hl]

end CH
