/-! Probe: bigBed coverage sweep (`add_interval_to_summary` and the zoom variant), executable model. -/
namespace Sweep

structure Seg where
  s : Nat
  e : Nat
  d : Nat      -- depth
deriving Repr, DecidableEq

/-- "for each item in `overlap` that overlaps the current item, add 1; split the one the item ends inside" -/
def bump (itemEnd : Nat) : List Seg → List Seg
  | [] => []
  | o :: rest =>
    if itemEnd < o.e then
      { o with e := itemEnd, d := o.d + 1 } :: { s := itemEnd, e := o.e, d := o.d } :: rest
    else
      { o with d := o.d + 1 } :: bump itemEnd rest

/-- tail rule of the *summary* sweep as found: append only when the list is empty or ends at `itemStart` -/
def tailSummary (itemStart itemEnd : Nat) (l : List Seg) : List Seg :=
  if (l.getLast?.map (·.e)).getD itemStart = itemStart then l ++ [⟨itemStart, itemEnd, 1⟩] else l

/-- tail rule of the *zoom* sweep: extend past the last segment when the item reaches further -/
def tailZoom (itemStart itemEnd : Nat) (l : List Seg) : List Seg :=
  match l.getLast? with
  | some o => if o.e < itemEnd then l ++ [⟨o.e, itemEnd, 1⟩] else l
  | none => l ++ [⟨itemStart, itemEnd, 1⟩]

/-- flush every segment that starts before `nextStart`; returns (emitted, remaining) -/
def flush (nextStart : Nat) : Nat → List Seg → List Seg × List Seg
  | 0, l => ([], l)
  | fuel + 1, l =>
    match l with
    | [] => ([], [])
    | f :: rest =>
      if f.s < nextStart then
        if f.e ≤ nextStart then
          let (em, rem) := flush nextStart fuel rest
          (f :: em, rem)
        else
          -- emit the part before `nextStart`, keep the remainder at the front; the loop then stops
          ([{ f with e := nextStart }], { f with s := nextStart } :: rest)
      else ([], l)

structure Stats where
  bases : Nat
  sum : Nat
  sumsq : Nat
  mn : Nat
  mx : Nat
deriving Repr, DecidableEq

def addSeg (st : Option Stats) (g : Seg) : Option Stats :=
  let len := g.e - g.s
  match st with
  | none => some ⟨len, len * g.d, len * g.d * g.d, g.d, g.d⟩
  | some t => some ⟨t.bases + len, t.sum + len * g.d, t.sumsq + len * g.d * g.d, min t.mn g.d, max t.mx g.d⟩

def sweep (zoomRule : Bool) : List (Nat × Nat) → List Seg → Option Stats → Option Stats
  | [], _, st => st
  | (s, e) :: rest, ov, st =>
    let ov1 := bump e ov
    let ov2 := if zoomRule then tailZoom s e ov1 else tailSummary s e ov1
    let nextStart := match rest with | [] => 4294967295 | (s', _) :: _ => s'
    let (em, rem) := flush nextStart (ov2.length + 1) ov2
    sweep zoomRule rest rem (em.foldl addSeg st)

-- the confirmed failing input (D3): real code reports bases 10, sum 15, sumsq 25
#eval sweep false [(0,10),(5,15)] [] none
#eval sweep true  [(0,10),(5,15)] [] none
-- matches the real code on a nested layout: bases 1000, sum 1030, sumsq 1090, min 1, max 2
#eval sweep false [(0,1000),(10,20),(30,40),(50,60)] [] none
end Sweep
