import BigtoolsModel.BBIWrite
import BigtoolsModel.BedZoomCompose
import BigtoolsModel.BedSummary
/-! Byte-level writer model for uncompressed bigBed files as bigtools lays them out (`bigbedwrite.rs`: `write_pre`,
    `process_val` / `encode_section`, `process_val_zoom`, `write_mid`, `write_zooms`, `write_info`), to be compared byte
    for byte with the real writer's output. All statistics are coverage depths — integers — so the model is exact for
    every uncompressed file with a manual (or empty) list of zoom sizes. Composes the sweep (`SW.sweepAll`, theorems of
    C06), the flagged tiler over emitted segments (`BZC.emitted`, `Tiler2.processAllF`, theorems of C08), the
    cross-chromosome merge (`BSUM`) and the R-tree / chromosome-tree serialisers of `BW`. -/
namespace BW

structure BedE where
  s : Nat
  e : Nat
  rest : List Nat
deriving Repr

def encBedSection (chrom : Nat) (items : List BedE) : Sec :=
  let start := (items.head?.map (·.s)).getD 0
  -- entries are sorted by start only: the largest end, not the last
  let stop := items.foldl (fun m x => max m x.e) start
  { chrom, start, stop, bytes := items.flatMap fun x => le 4 chrom ++ le 4 x.s ++ le 4 x.e ++ x.rest ++ [0] }

def cutBedSections (ips chrom : Nat) : Nat → List BedE → List Sec
  | 0, _ => []
  | _, [] => []
  | fuel + 1, items => encBedSection chrom (items.take ips) :: cutBedSections ips chrom fuel (items.drop ips)

/-- zoom records of one chromosome: the flagged tiler over the emitted depth segments; the sum of squares is the
    `sum` of the same run on squared depths (`Tiler2.run3_rel`). Also returns the FORCED section cuts: while the last
    entry's pieces are drained (`next_val.is_none()`), the end of every piece closes the open record and flushes the
    section buffer, so the records are cut there as well as every `items_per_slot` records. -/
def bedZoomRecs (chrom size : Nat) (es : List (Nat × Nat)) : List ZRec × List Nat :=
  let em := BZC.emitted 4294967295 es []
  let vals (sq : Bool) := em.map fun (g, f) => ((⟨g.s, g.e, if sq then (g.d : Int) * g.d else g.d⟩ : Tiler2.Val), f)
  let run (sq : Bool) := ((Tiler2.processAllF Tiler2.repaired size (vals sq) { live := none, out := [] }).map (·.out)).getD []
  let cuts := ((vals false).foldl (fun (acc : Option Tiler2.TSt × List Nat) x =>
      match acc.1 with
      | none => acc
      | some st =>
        match Tiler2.processAllF Tiler2.repaired size [x] st with
        | none => (none, acc.2)
        | some st' => (some st', if x.2 then acc.2 ++ [st'.out.length] else acc.2))
    (some { live := none, out := [] }, [])).2
  (((run false).zip (run true)).map fun (a, b) => ⟨chrom, a.start, a.stop, a.bases, a.mn, a.mx, a.sum, b.sum⟩, cuts)

/-- sections of a chromosome's zoom records: cut at the forced positions, and every `ips` records in between -/
def cutZoomSectionsAt (ips : Nat) (recs : List ZRec) (cuts : List Nat) : List Sec :=
  let rec go : List Nat → Nat → List ZRec → List Sec
    | [], _, rest => cutZoomSections ips (rest.length + 1) rest
    | c :: cs, done, rest =>
      let seg := rest.take (c - done)
      cutZoomSections ips (seg.length + 1) seg ++ go cs (max c done) (rest.drop (c - done))
  go cuts 0 recs

def BIGBED_MAGIC : Nat := 0x8789F2EB

/-- input: chromosomes in first-appearance order with their sizes and entries; `autosql` = the stored text (without
    the terminating NUL), `fieldCount` = what `write_pre` derives from it; `z`: see `BW.Blobs` -/
def writeBigBedZ (o : Opts) (z : Blobs) (autosql : List Nat) (fieldCount : Nat) (input : List (List Nat × Nat × List BedE)) :
    List Nat × Bool :=
  let autosqlOff := 64 + 240
  let summaryOff := autosqlOff + autosql.length + 1
  let fullDataOff := summaryOff + 40
  let preData := fullDataOff + 8
  let dataSecs0 := input.zipIdx.flatMap fun (c, id) => cutBedSections (min o.itemsPerSlot 65535) id (c.2.2.length + 1) c.2.2   -- a section's item count is 16 bits wide (D22)
  let (dataSecs, z1, ok1) := substBlobs z dataSecs0
  let (dataLeaves, dataEnd) := leavesOf dataSecs preData
  let dataBytes := dataSecs.flatMap (·.bytes)
  let chromBytes := chromTreeBytes (input.zipIdx.map fun (c, id) => (c.1, id, c.2.1))
  let indexStart := dataEnd + chromBytes.length
  let idxBytes := indexBytes o.blockSize o.itemsPerSlot dataLeaves indexStart
  let zoomStart := indexStart + idxBytes.length
  let zooms := o.zoomSizes.foldl (fun (acc : (List (Nat × Nat × Nat) × List Nat × Nat) × Blobs × Bool × Nat) size =>
      let secs0 := input.zipIdx.flatMap fun (c, id) =>
        let (rs, cuts) := bedZoomRecs id size (c.2.2.map fun x => (x.s, x.e))
        cutZoomSectionsAt o.itemsPerSlot rs cuts
      if secs0.isEmpty then acc else
      let (secs, z', ok') := substBlobs acc.2.1 secs0
      let a := acc.1
      let (zl, zend) := leavesOf secs a.2.2
      let zdata := secs.flatMap (·.bytes)
      let zidx := indexBytes o.blockSize o.itemsPerSlot zl zend
      ((a.1 ++ [(size, a.2.2, zend)], a.2.1 ++ zdata ++ zidx, zend + zidx.length), z', acc.2.2.1 && ok', max acc.2.2.2 (maxLen secs0)))
    (([], [], zoomStart), z1, ok1, maxLen dataSecs0)
  let ((zoomHdrs, zoomBytes, _), zrest, ok, ubs) := zooms
  let sms := input.map fun c => BSUM.ofSegs ((BZC.emitted 4294967295 (c.2.2.map fun x => (x.s, x.e)) []).map (·.1))   -- = (SW.sweepAll … [] []).1 (BZC.sweepAll_emitted), linear
  let t := match sms with
    | [] => (⟨0, 0, 0, 0, 0⟩ : BSUM.Sm)
    | s :: rest => rest.foldl BSUM.merge s
  let n := (input.map (·.2.2.length)).sum
  let header := le 4 BIGBED_MAGIC ++ le 2 4 ++ le 2 zoomHdrs.length ++ le 8 dataEnd ++ le 8 fullDataOff ++ le 8 indexStart ++
    le 2 fieldCount ++ le 2 fieldCount ++ le 8 autosqlOff ++ le 8 summaryOff ++ le 4 (if z.isSome then ubs else 0) ++ le 8 0
  let zoomDir := zoomHdrs.flatMap fun z => le 4 z.1 ++ le 4 0 ++ le 8 z.2.1 ++ le 8 z.2.2
  let zoomDirPad := List.replicate (240 - zoomDir.length) 0
  let summary := le 8 t.bases ++ f64 t.mn ++ f64 t.mx ++ f64 t.sum ++ f64 t.sumsq
  (header ++ zoomDir ++ zoomDirPad ++ autosql ++ [0] ++ summary ++ le 8 n ++ dataBytes ++ chromBytes ++ idxBytes ++
    zoomBytes ++ le 4 BIGBED_MAGIC, ok && (zrest.map (·.isEmpty)).getD true)

def writeBigBed (o : Opts) (autosql : List Nat) (fieldCount : Nat) (input : List (List Nat × Nat × List BedE)) : List Nat :=
  (writeBigBedZ o none autosql fieldCount input).1

end BW
