import sys
sys.path.insert(0, '/tmp/scratch/pymod')
import pybigtools, numpy as np
p='/tmp/scratch/pymod/x.bw'
b = pybigtools.open(p, 'w')
b.write({'chr1': 100000}, [('chr1', i*10, i*10+10, float(i % 7)) for i in range(2000)])
f = pybigtools.open(p)
print(f.info()); zs = f.zooms() if hasattr(f,'zooms') else []
print(zs)
for r in [40, 160, 640]:
    end = r * 40
    for kw in [dict(bins=4), dict(bins=4, exact=True)]:
        try:
            print(r, end, kw, f.values('chr1', 0, end, **kw))
        except BaseException as ex:
            print(r, end, kw, 'EXC', type(ex).__name__, str(ex)[:100])
