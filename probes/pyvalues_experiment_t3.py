import sys
sys.path.insert(0, '/tmp/scratch/pymod')
import pybigtools, numpy as np, itertools
p='/tmp/scratch/pymod/y.bw'
b = pybigtools.open(p, 'w')
b.write({'chr1': 100}, [('chr1', 0, 100, 1.0)])
f = pybigtools.open(p)
bad=0; tot=0
for start in range(-30, 20, 3):
    for end in range(60, 140, 3):
        for bins in range(1, 25):
            for exact in (True,):
                tot+=1
                try:
                    v = f.values('chr1', start, end, bins=bins, exact=exact, oob=-9.0, missing=-1.0)
                except BaseException as ex:
                    bad+=1
                    if bad<=8: print('EXC', start, end, bins, type(ex).__name__, str(ex)[:90])
                    continue
                # integral width: check oob bins exactly
                L=end-start
                if L % bins == 0:
                    w=L//bins
                    for k in range(bins):
                        lo=start+k*w; hi=lo+w
                        allout = hi<=0 or lo>=100
                        if allout and v[k]!=-9.0:
                            bad+=1
                            if bad<=8: print('OOB-MISS', start,end,bins,k,v)
                            break
print('total',tot,'bad',bad)
