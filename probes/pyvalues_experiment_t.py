import sys, subprocess, os
sys.path.insert(0, '/tmp/scratch/pymod')
import pybigtools, numpy as np
def mk(entries, path='/tmp/scratch/pymod/x.bb'):
    b = pybigtools.open(path, 'w')
    b.write({'chr1': 100}, [('chr1', s, e, 'x') for (s, e) in entries])
    return pybigtools.open(path)
def run(entries, s, e, **kw):
    try:
        f = mk(entries)
        print(entries, (s, e), kw, '->', f.values('chr1', s, e, **kw))
    except BaseException as ex:
        print(entries, (s, e), kw, 'EXC', type(ex).__name__, str(ex)[:200])
run([(5, 15), (20, 30)], 0, 20, bins=2, exact=True)
run([(5, 15), (20, 30)], 0, 20, bins=2, exact=True, summary='max')
run([(5, 15), (20, 30)], 0, 20)
run([(5, 15), (20, 30)], 20, 40, bins=2, exact=True)
run([(5, 15), (15, 15), (20, 30)], 0, 40, bins=4, exact=True)
