import sys
sys.path.insert(0, '/tmp/scratch/pymod')
import pybigtools, numpy as np
p='/tmp/scratch/pymod/z.bb'
b = pybigtools.open(p, 'w'); b.write({'chr1': 100}, [('chr1', 0, 100, 'x'), ('chr1', 90, 100, 'y')])
f = pybigtools.open(p)
bad=0; tot=0
for start in range(-30, 120, 7):
    for end in range(start, 150, 7):
        for kw in [{}]+[dict(bins=b,exact=True) for b in (1,2,3,7,14)]+[dict(bins=b) for b in (2,7)]:
            if 'bins' in kw and end==start: continue
            tot+=1
            try:
                v=f.values('chr1', start, end, oob=-9.0, missing=-1.0, **kw)
                if np.isnan(v).any(): raise Exception('NaN '+str(v))
            except BaseException as ex:
                bad+=1
                if bad<=6: print('EXC', start, end, kw, type(ex).__name__, str(ex)[:90])
print('total',tot,'bad',bad)
