use std::collections::HashMap;
use std::io::{Cursor, Read, Seek, SeekFrom, Write};
use std::sync::{Arc, Mutex};
use bigtools::beddata::BedParserStreamingIterator;
use bigtools::{BigWigWrite, BigBedWrite, BigWigRead, BigBedRead, Value, BedEntry, BBIRead};

#[derive(Clone)]
struct Sink(Arc<Mutex<Cursor<Vec<u8>>>>);
impl Write for Sink { fn write(&mut self, b:&[u8])->std::io::Result<usize>{ self.0.lock().unwrap().write(b) } fn flush(&mut self)->std::io::Result<()>{Ok(())} }
impl Seek for Sink { fn seek(&mut self, p:SeekFrom)->std::io::Result<u64>{ self.0.lock().unwrap().seek(p) } }

fn rt() -> tokio::runtime::Runtime { tokio::runtime::Builder::new_multi_thread().worker_threads(2).build().unwrap() }

fn write_bw(vals: Vec<(&str, Value)>, sizes: &[(&str,u32)], f: impl FnOnce(&mut BigWigWrite<Sink>)) -> Vec<u8> {
    let sink = Sink(Arc::new(Mutex::new(Cursor::new(vec![]))));
    let mut w = BigWigWrite::new(sink.clone(), sizes.iter().map(|(a,b)|(a.to_string(),*b)).collect::<HashMap<_,_>>());
    f(&mut w);
    let it = BedParserStreamingIterator::wrap_infallible_iter(vals.into_iter().map(|(c,v)|(c.to_string(),v)), false);
    w.write(it, rt()).unwrap();
    let v = sink.0.lock().unwrap().get_ref().clone(); v
}
fn write_bb(vals: Vec<(&str, BedEntry)>, sizes: &[(&str,u32)], f: impl FnOnce(&mut BigBedWrite<Sink>)) -> Vec<u8> {
    let sink = Sink(Arc::new(Mutex::new(Cursor::new(vec![]))));
    let mut w = BigBedWrite::new(sink.clone(), sizes.iter().map(|(a,b)|(a.to_string(),*b)).collect::<HashMap<_,_>>());
    f(&mut w);
    let it = BedParserStreamingIterator::wrap_infallible_iter(vals.into_iter().map(|(c,v)|(c.to_string(),v)), false);
    w.write(it, rt()).unwrap();
    let v = sink.0.lock().unwrap().get_ref().clone(); v
}
fn e(s:u32,en:u32)->BedEntry{BedEntry{start:s,end:en,rest:String::new()}}

fn main() {
    let which = std::env::args().nth(1).unwrap();
    match which.as_str() {
        "zoomgap" => {
            let bytes = write_bw(vec![("chr1",Value{start:0,end:5,value:1.0}),("chr1",Value{start:100,end:105,value:2.0})], &[("chr1",1000)], |w|{ w.options.manual_zoom_sizes=Some(vec![10]); w.options.compress=false;});
            let mut r = BigWigRead::open(Cursor::new(bytes)).unwrap();
            println!("zooms {:?}", r.info().zoom_headers);
            for z in r.get_zoom_interval("chr1",0,1000,10).unwrap() { println!("{:?}", z.unwrap()); }
        }
        "bbspan" => {
            let bytes = write_bb(vec![("chr1",e(0,1000)),("chr1",e(10,20)),("chr1",e(30,40)),("chr1",e(50,60))], &[("chr1",2000)], |w|{ w.options.items_per_slot=2; w.options.compress=false;});
            let mut r = BigBedRead::open(Cursor::new(bytes)).unwrap();
            let v: Vec<_> = r.get_interval("chr1",500,600).unwrap().map(|x|x.unwrap()).collect();
            println!("query 500-600 -> {:?}", v);
            println!("summary {:?}", r.get_summary().unwrap());
        }
        "bbsum" => {
            let bytes = write_bb(vec![("chr1",e(0,10)),("chr1",e(5,15))], &[("chr1",2000)], |w|{ w.options.compress=false;});
            let mut r = BigBedRead::open(Cursor::new(bytes)).unwrap();
            println!("summary {:?}", r.get_summary().unwrap());
        }
        "bbsum2" => {
            let bytes = write_bb(vec![("chr1",e(0,10)),("chr1",e(0,10)),("chr2",e(5,5))], &[("chr1",2000),("chr2",2000)], |w|{ w.options.compress=false; w.options.manual_zoom_sizes=Some(vec![]);});
            let mut r = BigBedRead::open(Cursor::new(bytes)).unwrap();
            println!("two chroms, second only zero-length: summary {:?}", r.get_summary().unwrap());
            let bytes = write_bb(vec![("chr1",e(0,10)),("chr1",e(0,10))], &[("chr1",2000),("chr2",2000)], |w|{ w.options.compress=false; w.options.manual_zoom_sizes=Some(vec![]);});
            let mut r = BigBedRead::open(Cursor::new(bytes)).unwrap();
            println!("first chrom alone: summary {:?}", r.get_summary().unwrap());
            let bytes = write_bb(vec![("chr1",e(5,5)),("chr2",e(0,10)),("chr2",e(0,10)),("chr3",e(7,7))], &[("chr1",2000),("chr2",2000),("chr3",2000)], |w|{ w.options.compress=false; w.options.manual_zoom_sizes=Some(vec![]);});
            let mut r = BigBedRead::open(Cursor::new(bytes)).unwrap();
            println!("zero-length-only chroms first and last: summary {:?}", r.get_summary().unwrap());
        }
        "zerolen" => {
            let bytes = write_bw(vec![("chr1",Value{start:5,end:5,value:1.0})], &[("chr1",1000)], |_w|{});
            println!("wrote {} bytes", bytes.len());
        }
        "bb00" => {
            let bytes = write_bb(vec![("chr1",e(0,0)),("chr1",e(3,9))], &[("chr1",2000)], |w|{ w.options.compress=false; w.options.manual_zoom_sizes=Some(vec![]);});
            let mut r = BigBedRead::open(Cursor::new(bytes)).unwrap();
            let v: Vec<_> = r.get_interval("chr1",0,2000).unwrap().collect();
            println!("{:?}", v);
        }
        "index" => {
            let mut f = tempfile::NamedTempFile::new().unwrap();
            write!(f, "chrA\t0\t1\nchrB\t0\t1\n").unwrap();
            let r = bigtools::bed::indexer::index_chroms(f.reopen().unwrap()).unwrap();
            println!("2 lines: {:?}", r);
            let mut f = tempfile::NamedTempFile::new().unwrap();
            write!(f, "chrA\t0\t1\nchrB\t0\t1\nchrB\t1\t2\t{}\n", "x".repeat(100)).unwrap();
            let r = bigtools::bed::indexer::index_chroms(f.reopen().unwrap()).unwrap();
            println!("long last: {:?}", r);
        }
        "fileview" => {
            let mut f = tempfile::NamedTempFile::new().unwrap();
            write!(f, "0123456789abcdefghij").unwrap();
            let mut v = bigtools::utils::file_view::FileView::new(f.reopen().unwrap(), 5, 15).unwrap();
            println!("seek end(-3) {:?}", v.seek(SeekFrom::End(-3)));
            let r = std::panic::catch_unwind(std::panic::AssertUnwindSafe(|| v.seek(SeekFrom::End(-12))));
            println!("seek end(-12) {:?}", r.map_err(|_| "PANIC"));
        }
        "autosql" => {
            let (tx, rx) = std::sync::mpsc::channel();
            std::thread::spawn(move || { let r = bigtools::bed::autosql::parse::parse_autosql("table t \"c\" ( enum(a, b"); tx.send(r.is_ok()).ok(); });
            println!("{:?}", rx.recv_timeout(std::time::Duration::from_secs(3)));
        }

        "bw00" => {
            let bytes = write_bw(vec![("chr1",Value{start:0,end:0,value:1.0}),("chr1",Value{start:3,end:9,value:2.0}),("chr1",Value{start:20,end:20,value:3.0}),("chr1",Value{start:1000,end:1000,value:4.0})], &[("chr1",1000)], |w|{ w.options.compress=false; w.options.manual_zoom_sizes=Some(vec![]);});
            let mut r = BigWigRead::open(Cursor::new(bytes)).unwrap();
            let v: Vec<_> = r.get_interval("chr1",0,1000).unwrap().collect();
            println!("{:?}", v);
            let v: Vec<_> = r.get_interval("chr1",5,5).unwrap().collect();
            println!("empty range 5,5: {:?}", v);
        }
        "flushfault" => {
            // sink that fails on the k-th write
            struct F{inner:Cursor<Vec<u8>>, n:Arc<Mutex<(usize,usize)>>}
            impl Write for F { fn write(&mut self,b:&[u8])->std::io::Result<usize>{ let mut g=self.n.lock().unwrap(); g.0+=1; if g.0==g.1 { return Err(std::io::Error::new(std::io::ErrorKind::Other,"injected")); } self.inner.write(b)} fn flush(&mut self)->std::io::Result<()>{Ok(())}}
            impl Seek for F { fn seek(&mut self,p:SeekFrom)->std::io::Result<u64>{self.inner.seek(p)}}
            // first count writes
            let cnt=Arc::new(Mutex::new((0usize,usize::MAX)));
            let run=|cnt:Arc<Mutex<(usize,usize)>>|{
                let f=F{inner:Cursor::new(vec![]),n:cnt};
                let mut w=BigWigWrite::new(f, [("chr1".to_string(),1000u32)].into_iter().collect::<HashMap<_,_>>());
                w.options.compress=false; w.options.manual_zoom_sizes=Some(vec![10]);
                let vals=vec![("chr1".to_string(),Value{start:0,end:5,value:1.0}),("chr1".to_string(),Value{start:7,end:9,value:2.0})];
                let it=BedParserStreamingIterator::wrap_infallible_iter(vals.into_iter(), false);
                std::panic::catch_unwind(std::panic::AssertUnwindSafe(|| w.write(it, rt()).map_err(|e| e.to_string())))
            };
            let _=run(cnt.clone());
            let total=cnt.lock().unwrap().0;
            println!("total writes {}", total);
            for k in 1..=total { let c=Arc::new(Mutex::new((0usize,k))); let r=run(c); println!("fail at {} -> {:?}", k, r.map_err(|_|"PANIC")); }
        }

        "index2" => {
            let mut f = tempfile::NamedTempFile::new().unwrap();
            // lines of 10,10,10,100,10 bytes: A A B B(long) C
            write!(f, "chrA\t0\t1\t1\nchrA\t1\t2\t1\nchrB\t0\t1\t1\nchrB\t1\t2\t{}\nchrC\t0\t1\t1\n", "x".repeat(91)).unwrap();
            let r = bigtools::bed::indexer::index_chroms(f.reopen().unwrap()).unwrap();
            println!("A A B Blong C: {:?}", r);
        }

        "mkbw" => {
            let vals = vec![("chr1",Value{start:0,end:5,value:1.0}),("chr1",Value{start:5,end:9,value:2.5}),("chr1",Value{start:12,end:13,value:-3.0}),("chr1",Value{start:20,end:30,value:4.0}),("chr1",Value{start:30,end:31,value:5.0}),
                            ("chr2",Value{start:3,end:4,value:6.0}),("chr2",Value{start:10,end:50,value:7.0}),("chr2",Value{start:60,end:61,value:8.0})];
            let bytes = write_bw(vals, &[("chr1",1000),("chr2",500)], |w|{ w.options.compress=false; w.options.items_per_slot=2; w.options.block_size=2; w.options.manual_zoom_sizes=Some(vec![10,40]);});
            std::fs::write("/tmp/scratch/t1.bw", &bytes).unwrap();
            let mut r = BigWigRead::open(Cursor::new(bytes)).unwrap();
            for c in ["chr1","chr2"] { for v in r.get_interval(c,0,if c=="chr1"{1000}else{500}).unwrap() { let v=v.unwrap(); println!("  {} {} {}", v.start, v.end, v.value.to_bits()); }
              let q: Vec<_> = r.get_interval(c,7,24).unwrap().map(|v|{let v=v.unwrap();(v.start,v.end)}).collect(); println!("  [7,24): {:?}", q); }
        }

        "zoomedge" => {
            let bytes = write_bw(vec![("chr1",Value{start:0,end:5,value:1.0}),("chr1",Value{start:10,end:15,value:7.0})], &[("chr1",1000)], |w|{ w.options.manual_zoom_sizes=Some(vec![10]); w.options.compress=false;});
            let mut r = BigWigRead::open(Cursor::new(bytes)).unwrap();
            for z in r.get_zoom_interval("chr1",0,1000,10).unwrap() { println!("{:?}", z.unwrap()); }
        }

        "mkbb" => {
            let b1 = write_bb(vec![("chr1",e(0,1000)),("chr1",e(10,20)),("chr1",e(30,40)),("chr1",e(50,60))], &[("chr1",2000)], |w|{ w.options.items_per_slot=2; w.options.compress=false;});
            std::fs::write("/tmp/scratch/b1.bb", &b1).unwrap();
            let b2 = write_bb(vec![("chr1",e(0,1000)),("chr1",e(10,20)),("chr1",e(30,40))], &[("chr1",2000)], |w|{ w.options.items_per_slot=1; w.options.block_size=2; w.options.compress=false;});
            std::fs::write("/tmp/scratch/b2.bb", &b2).unwrap();
            let b3 = write_bb(vec![("chr1",e(0,10)),("chr1",e(10,20)),("chr1",e(30,40)),("chr2",e(5,6))], &[("chr1",2000),("chr2",100)], |w|{ w.options.items_per_slot=2; w.options.block_size=2; w.options.compress=false;});
            std::fs::write("/tmp/scratch/b3.bb", &b3).unwrap();
        }

        "indexall" => {
            // exhaustive small grouped files: up to 4 runs, 1..3 lines each, pads from a small set, final newline on/off
            use std::io::Write as _;
            let pads = [0usize, 1, 7, 40];
            let names = ["a","b","c","d"];
            let mut files: Vec<Vec<(usize,usize)>> = vec![vec![]]; // (chrom idx, pad)
            let mut all: Vec<Vec<(usize,usize)>> = vec![];
            for k in 0..4 {
                let mut next = vec![];
                for f in &files {
                    for runlen in 1..=3 {
                        // all pad combos for this run
                        let mut combos: Vec<Vec<usize>> = vec![vec![]];
                        for _ in 0..runlen { let mut n2=vec![]; for c in &combos { for p in pads { let mut c2=c.clone(); c2.push(p); n2.push(c2);} } combos=n2; }
                        for c in combos { let mut f2=f.clone(); for p in c { f2.push((k,p)); } next.push(f2); }
                    }
                }
                all.extend(next.iter().cloned());
                files = next;
                if k==2 { break; }
            }
            let mut bad=0usize; let mut n=0usize;
            let path = std::env::temp_dir().join("idx_probe.bed");
            for (fi,f) in all.iter().enumerate() {
                if fi % 7 != 0 && f.len() > 5 { continue; } // thin out the largest class
                for final_nl in [true,false] {
                    let mut text=String::new(); let mut want: Vec<(u64,String)>=vec![]; 
                    for (i,(c,p)) in f.iter().enumerate() {
                        if i==0 || f[i-1].0 != *c { want.push((text.len() as u64, names[*c].to_string())); }
                        text.push_str(&format!("{}\t0\t1", names[*c])); if *p>0 { text.push('\t'); text.push_str(&"x".repeat(*p)); }
                        if i+1<f.len() || final_nl { text.push('\n'); }
                    }
                    std::fs::File::create(&path).unwrap().write_all(text.as_bytes()).unwrap();
                    let got = bigtools::bed::indexer::index_chroms(std::fs::File::open(&path).unwrap());
                    n+=1;
                    match got { Ok(Some(g)) if g==want => {}, other => { bad+=1; if bad<=5 { println!("MISMATCH {:?} want {:?} got {:?}", text, want, other.map_err(|e|e.to_string())); } } }
                }
            }
            println!("files {} mismatches {}", n, bad);
        }

        "bbzoommin" => {
            let bytes = write_bb(vec![("chr1",e(0,10)),("chr1",e(0,10))], &[("chr1",2000)], |w|{ w.options.compress=false; w.options.manual_zoom_sizes=Some(vec![10]);});
            let mut r = BigBedRead::open(Cursor::new(bytes)).unwrap();
            println!("summary {:?}", r.get_summary().unwrap());
            for z in r.get_zoom_interval("chr1",0,2000,10).unwrap() { println!("{:?}", z.unwrap()); }
        }

        "bbphantom" => {
            let bytes = write_bb(vec![("chr1",e(0,20)),("chr1",e(0,10)),("chr1",e(0,10)),("chr1",e(10,20)),("chr1",e(10,20)),("chr1",e(10,20))], &[("chr1",2000)], |w|{ w.options.compress=false; w.options.manual_zoom_sizes=Some(vec![100]);});
            let mut r = BigBedRead::open(Cursor::new(bytes)).unwrap();
            println!("summary {:?}", r.get_summary().unwrap());
            for z in r.get_zoom_interval("chr1",0,2000,100).unwrap() { println!("{:?}", z.unwrap()); }
        }

        "mkbwint" => {
            let vals = vec![("chr1",Value{start:0,end:5,value:1.0}),("chr1",Value{start:5,end:9,value:2.0}),("chr1",Value{start:12,end:13,value:-3.0}),("chr1",Value{start:20,end:30,value:4.0}),("chr1",Value{start:30,end:31,value:5.0}),("chr1",Value{start:100,end:131,value:7.0}),("chr1",Value{start:140,end:141,value:6.0}),
                            ("chrB2",Value{start:3,end:4,value:6.0}),("chrB2",Value{start:10,end:50,value:7.0}),("chrB2",Value{start:60,end:61,value:8.0})];
            let bytes = write_bw(vals, &[("chr1",1000),("chrB2",500)], |w|{ w.options.compress=false; w.options.items_per_slot=2; w.options.block_size=2; w.options.manual_zoom_sizes=Some(vec![10,40]);});
            std::fs::write("/tmp/scratch/t2.bw", &bytes).unwrap();
            println!("{} bytes", bytes.len());
        }
        _ => {}
    }
}
