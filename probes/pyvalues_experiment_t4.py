import sys
sys.path.insert(0, '/tmp/scratch/pymod')
import pybigtools, numpy as np
f = pybigtools.open('/tmp/scratch/pymod/y.bw')
for args,kw in [(('chr1',-30,-10),dict(bins=2,exact=True)),(('chr1',-30,-10),{}),(('chr1',120,140),dict(bins=2,exact=True)),(('chr1',120,140),{}),(('chr1',-5,5),dict(bins=3,exact=True)),(('chr1',95,105),dict(bins=3,exact=True)),(('chr1',50,50),{}),(('chr1',60,50),{}),(('chr1',-5,105),{})]:
    try:
        print(args,kw,'->',f.values(*args,oob=-9.0,missing=-1.0,**kw))
    except BaseException as ex:
        print(args,kw,'EXC',type(ex).__name__,str(ex)[:120])
