#!/usr/bin/env python3
"""bbi_codec -- an independent decoder, well-formedness judge and encoder for
UCSC bigWig / bigBed ("BBI") files.

Written from the published format (Kent et al. 2010, "BigWig and BigBed:
enabling browsing of large distributed datasets", supplement, and kent's
bbiFile.h / bigWig.h / bigBed.h / cirTree.c / bPlusTree.c).  It shares no code
with the Rust crate under test: nothing is imported from it and nothing was
copied from it.  Standard library only.

Public API
    decode(data, floats=False) -> dict          full decode, raises BBIFormatError
    check(data, only=None, *, sorted_chrom_keys=True,
          strict_items_per_slot=None) -> [str]  well-formedness problems
    query(dec, chrom, start, end) -> list       linear-scan overlap answers
    query_touching(dec, chrom, start, end)      bigBed, inclusive ends
    encode_bigwig(spec) / encode_bigbed(spec)   independent writer
    bits_to_float / float_to_bits               f32 <-> 'xxxxxxxx' helpers
CLI
    bbi_codec.py check [--only a,b] [--unsorted-chrom-keys] FILE...
    bbi_codec.py dump FILE
    bbi_codec.py inflate FILE
    bbi_codec.py selftest
"""
import bisect
import io
import json
import struct
import sys
import zlib

BIGWIG_MAGIC = 0x888FFC26
BIGBED_MAGIC = 0x8789F2EB
BPT_MAGIC = 0x78CA8C91
CIR_MAGIC = 0x2468ACE0

FAMILIES = ("header", "chromtree", "index", "blocks", "summary", "zooms")
EXTRA_FAMILIES = ("fields",)          # opt-in only (never part of the default)
MAX_DEPTH = 64
MAX_INFLATE = 1 << 28


class BBIFormatError(Exception):
    pass


# --------------------------------------------------------------------------
# small helpers
# --------------------------------------------------------------------------

def bits_to_float(bits_hex):
    """'3f800000' -> 1.0 (IEEE binary32 bit pattern, most significant first)."""
    return struct.unpack(">f", bytes.fromhex(bits_hex))[0]


def float_to_bits(x):
    """1.0 -> '3f800000'.  Accepts a float or an 8-digit hex string."""
    if isinstance(x, str):
        if len(x) != 8:
            raise ValueError("f32 bit pattern must be 8 hex digits: %r" % (x,))
        int(x, 16)
        return x.lower()
    try:
        return struct.pack(">f", x).hex()
    except OverflowError:
        return "7f800000" if x > 0 else "ff800000"


def _f32(x):
    """Narrow a Python float to the nearest binary32 (overflow -> inf)."""
    try:
        return struct.unpack("<f", struct.pack("<f", x))[0]
    except OverflowError:
        return float("inf") if x > 0 else float("-inf")


def _u32_to_f(bits):
    return struct.unpack("<f", struct.pack("<I", bits))[0]


class _Reader:
    def __init__(self, data, e):
        self.d = data
        self.e = e
        self.n = len(data)

    def need(self, off, n, what):
        if off < 0 or n < 0 or off + n > self.n:
            raise BBIFormatError("%s: bytes [%d,%d) lie outside the file (%d bytes)"
                                 % (what, off, off + n, self.n))

    def unpack(self, fmt, off, what):
        s = struct.Struct(self.e + fmt)
        self.need(off, s.size, what)
        return s.unpack_from(self.d, off)


def _detect(data):
    if len(data) < 4:
        raise BBIFormatError("file shorter than a magic number")
    for e in ("<", ">"):
        v = struct.unpack(e + "I", data[:4])[0]
        if v == BIGWIG_MAGIC:
            return "bigwig", e, v
        if v == BIGBED_MAGIC:
            return "bigbed", e, v
    raise BBIFormatError("bad magic %s: neither bigWig nor bigBed in either byte order"
                         % data[:4].hex())


def _parse_header(data):
    kind, e, magic = _detect(data)
    r = _Reader(data, e)
    (m, version, zoom_levels, cto, fdo, fio, fc, dfc, aso, tso, ubs, ext) = \
        r.unpack("IHHQQQHHQQIQ", 0, "file header")
    h = dict(kind=kind, e=e, magic=magic, version=version, zoom_levels=zoom_levels,
             chrom_tree_offset=cto, full_data_offset=fdo, full_index_offset=fio,
             field_count=fc, defined_field_count=dfc, autosql_offset=aso,
             total_summary_offset=tso, uncompress_buf_size=ubs, extension_offset=ext)
    zh = []
    for i in range(zoom_levels):
        red, resv, doff, ioff = r.unpack("IIQQ", 64 + 24 * i, "zoom header %d" % i)
        zh.append(dict(reduction=red, reserved=resv, data_offset=doff, index_offset=ioff))
    h["zoom_headers"] = zh
    return h, r


def _read_autosql(r, off):
    r.need(off, 1, "autoSql")
    end = r.d.find(b"\0", off)
    if end < 0:
        raise BBIFormatError("autoSql at %d is not NUL-terminated" % off)
    return r.d[off:end]


def _read_summary(r, off):
    bc, mn, mx, sm, sq = r.unpack("Qdddd", off, "total summary")
    return dict(bases_covered=bc, min=mn, max=mx, sum=sm, sum_squares=sq,
                raw_hex=bytes(r.d[off:off + 40]).hex())


# --------------------------------------------------------------------------
# B+ tree (chromosome names)
# --------------------------------------------------------------------------

def _walk_bpt(r, off):
    magic, block_size, key_size, val_size, item_count, reserved = \
        r.unpack("IIIIQQ", off, "chromosome tree header")
    if magic != BPT_MAGIC:
        raise BBIFormatError("chromosome tree at %d: magic %08x, expected %08x"
                             % (off, magic, BPT_MAGIC))
    if val_size != 8:
        raise BBIFormatError("chromosome tree: valSize %d, expected 8" % val_size)
    if key_size < 1 or key_size > 65535:
        raise BBIFormatError("chromosome tree: implausible keySize %d" % key_size)
    t = dict(offset=off, block_size=block_size, key_size=key_size, val_size=val_size,
             item_count=item_count, reserved=reserved, nodes=[], leaves=[],
             leaf_levels=set())
    seen = set()
    isz = key_size + 8

    def node(noff, level, pkey):
        if noff in seen:
            raise BBIFormatError("chromosome tree: node at %d reachable twice" % noff)
        if level >= MAX_DEPTH:
            raise BBIFormatError("chromosome tree deeper than %d levels" % MAX_DEPTH)
        seen.add(noff)
        is_leaf, resv, count = r.unpack("BBH", noff, "chromosome tree node at %d" % noff)
        if is_leaf not in (0, 1):
            raise BBIFormatError("chromosome tree node at %d: isLeaf = %d" % (noff, is_leaf))
        r.need(noff + 4, count * isz, "chromosome tree node at %d (%d items)" % (noff, count))
        nd = dict(offset=noff, level=level, is_leaf=is_leaf, reserved=resv, count=count,
                  parent_key=pkey, end=noff + 4 + count * isz, items=[])
        t["nodes"].append(nd)
        p = noff + 4
        if is_leaf:
            t["leaf_levels"].add(level)
            for _ in range(count):
                key = bytes(r.d[p:p + key_size])
                cid, csz = struct.unpack_from(r.e + "II", r.d, p + key_size)
                nd["items"].append((key, cid, csz))
                t["leaves"].append((key, cid, csz))
                p += isz
        else:
            kids = []
            for _ in range(count):
                key = bytes(r.d[p:p + key_size])
                child = struct.unpack_from(r.e + "Q", r.d, p + key_size)[0]
                nd["items"].append((key, child))
                kids.append((key, child))
                p += isz
            for key, child in kids:
                node(child, level + 1, key)

    node(off + 32, 0, None)
    t["depth"] = (max(t["leaf_levels"]) + 1) if t["leaf_levels"] else 1
    return t


def _key_name(key):
    return key.split(b"\0", 1)[0].decode("latin-1")


# --------------------------------------------------------------------------
# R tree (cirTree)
# --------------------------------------------------------------------------

def _walk_rtree(r, off, what):
    (magic, block_size, item_count, sc, sb, ec, eb, end_off, ips, resv) = \
        r.unpack("IIQIIIIQII", off, what + " header")
    if magic != CIR_MAGIC:
        raise BBIFormatError("%s at %d: magic %08x, expected %08x" % (what, off, magic, CIR_MAGIC))
    t = dict(offset=off, block_size=block_size, item_count=item_count,
             bounds=[sc, sb, ec, eb], end_file_offset=end_off, items_per_slot=ips,
             reserved=resv, nodes=[], leaves=[], leaf_levels=set())
    seen = set()

    def node(noff, level, pspan):
        if noff in seen:
            raise BBIFormatError("%s: node at %d reachable twice" % (what, noff))
        if level >= MAX_DEPTH:
            raise BBIFormatError("%s deeper than %d levels" % (what, MAX_DEPTH))
        seen.add(noff)
        is_leaf, nresv, count = r.unpack("BBH", noff, "%s node at %d" % (what, noff))
        if is_leaf not in (0, 1):
            raise BBIFormatError("%s node at %d: isLeaf = %d" % (what, noff, is_leaf))
        isz = 32 if is_leaf else 24
        r.need(noff + 4, count * isz, "%s node at %d (%d items)" % (what, noff, count))
        nd = dict(offset=noff, level=level, is_leaf=is_leaf, reserved=nresv, count=count,
                  span=pspan, end=noff + 4 + count * isz, items=[])
        t["nodes"].append(nd)
        body = bytes(r.d[noff + 4:noff + 4 + count * isz])
        if is_leaf:
            t["leaf_levels"].add(level)
            for it in struct.iter_unpack(r.e + "IIIIQQ", body):
                nd["items"].append(it)
                t["leaves"].append(dict(span=list(it[:4]), offset=it[4], size=it[5],
                                        node=noff))
        else:
            for it in struct.iter_unpack(r.e + "IIIIQ", body):
                nd["items"].append(it)
            for it in nd["items"]:
                node(it[4], level + 1, tuple(it[:4]))

    node(off + 48, 0, None)
    t["depth"] = (max(t["leaf_levels"]) + 1) if t["leaf_levels"] else 1
    return t


def _index_public(t):
    return dict(block_size=t["block_size"], item_count=t["item_count"],
                items_per_slot=t["items_per_slot"], bounds=list(t["bounds"]),
                end_file_offset=t["end_file_offset"], depth=t["depth"],
                leaves=[dict(span=l["span"], offset=l["offset"], size=l["size"])
                        for l in t["leaves"]])


# --------------------------------------------------------------------------
# data blocks
# --------------------------------------------------------------------------

def _inflate(raw, compressed, what):
    if not compressed:
        return bytes(raw)
    d = zlib.decompressobj()
    try:
        out = d.decompress(bytes(raw), MAX_INFLATE)
    except zlib.error as x:
        raise BBIFormatError("%s: not a valid zlib stream (%s)" % (what, x))
    if d.unconsumed_tail:
        raise BBIFormatError("%s: inflates to more than %d bytes" % (what, MAX_INFLATE))
    if not d.eof:
        raise BBIFormatError("%s: zlib stream is truncated" % what)
    if d.unused_data:
        raise BBIFormatError("%s: %d bytes of junk after the zlib stream"
                             % (what, len(d.unused_data)))
    return out


_WIG_ITEM = {1: 12, 2: 8, 3: 4}


def _parse_wig_section(e, buf, what):
    if len(buf) < 24:
        raise BBIFormatError("%s: %d bytes, shorter than a section header" % (what, len(buf)))
    chrom, start, end, step, span, typ, resv, count = struct.unpack_from(e + "IIIIIBBH", buf, 0)
    if typ not in _WIG_ITEM:
        raise BBIFormatError("%s: section type %d (expected 1, 2 or 3)" % (what, typ))
    need = 24 + count * _WIG_ITEM[typ]
    if len(buf) != need:
        raise BBIFormatError("%s: type %d section with %d items needs %d bytes, block holds %d"
                             % (what, typ, count, need, len(buf)))
    items = []
    if typ == 1:
        v = struct.unpack_from(e + "%dI" % (3 * count), buf, 24)
        for i in range(count):
            items.append([v[3 * i], v[3 * i + 1], "%08x" % v[3 * i + 2]])
    elif typ == 2:
        v = struct.unpack_from(e + "%dI" % (2 * count), buf, 24)
        for i in range(count):
            items.append([v[2 * i], v[2 * i] + span, "%08x" % v[2 * i + 1]])
    else:
        v = struct.unpack_from(e + "%dI" % count, buf, 24)
        for i in range(count):
            s = start + i * step
            items.append([s, s + span, "%08x" % v[i]])
    return dict(chrom_id=chrom, type=typ, start=start, end=end, step=step, span=span,
                reserved=resv, items=items)


def _parse_bed_block(e, buf, what):
    items = []
    p, n = 0, len(buf)
    while p < n:
        if p + 12 > n:
            raise BBIFormatError("%s: %d stray bytes after the last record" % (what, n - p))
        chrom, s, en = struct.unpack_from(e + "III", buf, p)
        z = buf.find(b"\0", p + 12)
        if z < 0:
            raise BBIFormatError("%s: record at +%d has no terminating NUL" % (what, p))
        items.append([chrom, s, en, buf[p + 12:z].hex()])
        p = z + 1
    return items


def _parse_zoom_block(e, buf, what):
    if len(buf) % 32:
        raise BBIFormatError("%s: %d bytes is not a multiple of the 32-byte zoom record"
                             % (what, len(buf)))
    recs, bits = [], []
    for c, s, en, v, mn, mx, sm, sq in struct.iter_unpack(e + "IIIIIIII", buf):
        recs.append([c, s, en, v, _u32_to_f(mn), _u32_to_f(mx), _u32_to_f(sm), _u32_to_f(sq)])
        bits.append(["%08x" % mn, "%08x" % mx, "%08x" % sm, "%08x" % sq])
    return recs, bits


def _load_block(r, leaf, compressed, what):
    off, size = leaf["offset"], leaf["size"]
    r.need(off, size, what)
    return _inflate(r.d[off:off + size], compressed, what)


# --------------------------------------------------------------------------
# decode
# --------------------------------------------------------------------------

def decode(data, floats=False):
    """Decode a whole bigWig/bigBed file.  Raises BBIFormatError when the file
    cannot be decoded.  (Semantic well-formedness is judged by check().)

    With floats=True every bigWig item gets a 4th element, the value as a
    Python float (the 3rd element is always the raw binary32 bit pattern)."""
    data = bytes(data)
    h, r = _parse_header(data)
    e, kind = h["e"], h["kind"]
    compressed = h["uncompress_buf_size"] > 0
    out = dict(kind=kind, endian="little" if e == "<" else "big", version=h["version"],
               field_count=h["field_count"], defined_field_count=h["defined_field_count"],
               uncompress_buf_size=h["uncompress_buf_size"],
               extension_offset=h["extension_offset"],
               offsets=dict(chrom_tree=h["chrom_tree_offset"], full_data=h["full_data_offset"],
                            full_index=h["full_index_offset"], autosql=h["autosql_offset"],
                            total_summary=h["total_summary_offset"]))
    out["autosql"] = (_read_autosql(r, h["autosql_offset"]).decode("latin-1")
                      if h["autosql_offset"] else None)
    out["summary"] = (_read_summary(r, h["total_summary_offset"])
                      if h["total_summary_offset"] else None)
    out["data_count"] = r.unpack("Q", h["full_data_offset"], "dataCount")[0]
    bpt = _walk_bpt(r, h["chrom_tree_offset"])
    out["chroms"] = [dict(name=_key_name(k), id=i, size=s) for k, i, s in bpt["leaves"]]
    out["chrom_tree"] = dict(block_size=bpt["block_size"], key_size=bpt["key_size"],
                             depth=bpt["depth"], item_count=bpt["item_count"])
    idx = _walk_rtree(r, h["full_index_offset"], "main index")
    out["index"] = _index_public(idx)
    inflate_table = []
    blocks = []
    per_chrom = {}
    for n, leaf in enumerate(idx["leaves"]):
        what = "data block %d at %d" % (n, leaf["offset"])
        buf = _load_block(r, leaf, compressed, what)
        if compressed:
            inflate_table.append([leaf["offset"], leaf["size"], buf.hex()])
        b = dict(offset=leaf["offset"], size=leaf["size"], inflated_size=len(buf))
        if kind == "bigwig":
            sec = _parse_wig_section(e, buf, what)
            if floats:
                for it in sec["items"]:
                    it.append(bits_to_float(it[2]))
            b.update(sec)
            per_chrom.setdefault(sec["chrom_id"], []).extend(sec["items"])
        else:
            items = _parse_bed_block(e, buf, what)
            b["chrom_id"] = items[0][0] if items else None
            b["items"] = items
            for c, s, en, rest in items:
                per_chrom.setdefault(c, []).append([s, en, rest])
        blocks.append(b)
    out["blocks"] = blocks
    out["values" if kind == "bigwig" else "entries"] = per_chrom
    zooms = []
    for zi, zh in enumerate(h["zoom_headers"]):
        zt = _walk_rtree(r, zh["index_offset"], "zoom %d index" % zi)
        recs, bits, zblocks = [], [], []
        for n, leaf in enumerate(zt["leaves"]):
            what = "zoom %d block %d at %d" % (zi, n, leaf["offset"])
            buf = _load_block(r, leaf, compressed, what)
            if compressed:
                inflate_table.append([leaf["offset"], leaf["size"], buf.hex()])
            rr, bb = _parse_zoom_block(e, buf, what)
            zblocks.append(dict(offset=leaf["offset"], size=leaf["size"],
                                inflated_size=len(buf), first=len(recs), count=len(rr)))
            recs.extend(rr)
            bits.extend(bb)
        z = dict(reduction=zh["reduction"], data_offset=zh["data_offset"],
                 index_offset=zh["index_offset"], index=_index_public(zt),
                 records=recs, records_bits=bits, blocks=zblocks)
        # kent writes a u32 record count at dataOffset, directly before the first
        # zoom block; other writers start the first block at dataOffset.
        z["count_field"] = None
        if zblocks and min(b["offset"] for b in zblocks) == zh["data_offset"] + 4:
            z["count_field"] = r.unpack("I", zh["data_offset"], "zoom count")[0]
        zooms.append(z)
    out["zooms"] = zooms
    out["inflate_table"] = inflate_table
    out["file_size"] = len(data)
    return out


# --------------------------------------------------------------------------
# query (linear scans over the decoded content)
# --------------------------------------------------------------------------

def _chrom_id(dec, chrom_name):
    for c in dec["chroms"]:
        if c["name"] == chrom_name:
            return c["id"]
    return None


def query(dec, chrom_name, start, end):
    cid = _chrom_id(dec, chrom_name)
    if cid is None:
        return []
    if dec["kind"] == "bigwig":
        res = []
        for it in dec["values"].get(cid, []):
            s, e = it[0], it[1]
            if e > start and s < end:
                res.append([max(s, start), min(e, end), it[2]])
        return res
    return [list(it) for it in dec["entries"].get(cid, []) if it[0] < end and it[1] > start]


def query_touching(dec, chrom_name, start, end):
    cid = _chrom_id(dec, chrom_name)
    if cid is None:
        return []
    key = "values" if dec["kind"] == "bigwig" else "entries"
    return [list(it) for it in dec[key].get(cid, []) if it[1] >= start and it[0] <= end]


# ---END---
