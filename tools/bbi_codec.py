#!/usr/bin/env python3
"""bbi_codec -- an independent decoder, well-formedness judge and encoder for
UCSC bigWig / bigBed ("BBI") files.

Written from the published format (Kent et al. 2010, "BigWig and BigBed:
enabling browsing of large distributed datasets", supplement, and kent's
bbiFile.h / bigWig.h / bigBed.h / cirTree.c / bPlusTree.c).  It shares no code
with the Rust crate under test: nothing is imported from it and nothing was
copied from it.  Standard library only.

Public API
    decode(data, floats=False) -> dict          full decode, raises BBIFormatError
    check(data, only=None, *, sorted_chrom_keys=True,
          strict_items_per_slot=None) -> [str]  well-formedness problems
    query(dec, chrom, start, end) -> list       linear-scan overlap answers
    query_touching(dec, chrom, start, end)      bigBed, inclusive ends
    encode_bigwig(spec) / encode_bigbed(spec)   independent writer
    bits_to_float / float_to_bits               f32 <-> 'xxxxxxxx' helpers
CLI
    bbi_codec.py check [--only a,b] [--unsorted-chrom-keys] FILE...
    bbi_codec.py dump FILE
    bbi_codec.py inflate FILE
    bbi_codec.py selftest
"""
import bisect
import io
import json
import math
import struct
import sys
import zlib

BIGWIG_MAGIC = 0x888FFC26
BIGBED_MAGIC = 0x8789F2EB
BPT_MAGIC = 0x78CA8C91
CIR_MAGIC = 0x2468ACE0

FAMILIES = ("header", "chromtree", "index", "blocks", "summary", "zooms")
EXTRA_FAMILIES = ("fields",)          # opt-in only (never part of the default)
MAX_DEPTH = 64
MAX_INFLATE = 1 << 28


class BBIFormatError(Exception):
    pass


# --------------------------------------------------------------------------
# small helpers
# --------------------------------------------------------------------------

def bits_to_float(bits_hex):
    """'3f800000' -> 1.0 (IEEE binary32 bit pattern, most significant first)."""
    return struct.unpack(">f", bytes.fromhex(bits_hex))[0]


def float_to_bits(x):
    """1.0 -> '3f800000'.  Accepts a float or an 8-digit hex string."""
    if isinstance(x, str):
        if len(x) != 8:
            raise ValueError("f32 bit pattern must be 8 hex digits: %r" % (x,))
        int(x, 16)
        return x.lower()
    try:
        return struct.pack(">f", x).hex()
    except OverflowError:
        return "7f800000" if x > 0 else "ff800000"


def _f32(x):
    """Narrow a Python float to the nearest binary32 (overflow -> inf)."""
    try:
        return struct.unpack("<f", struct.pack("<f", x))[0]
    except OverflowError:
        return float("inf") if x > 0 else float("-inf")


def _u32_to_f(bits):
    return struct.unpack("<f", struct.pack("<I", bits))[0]


class _Reader:
    def __init__(self, data, e):
        self.d = data
        self.e = e
        self.n = len(data)

    def need(self, off, n, what):
        if off < 0 or n < 0 or off + n > self.n:
            raise BBIFormatError("%s: bytes [%d,%d) lie outside the file (%d bytes)"
                                 % (what, off, off + n, self.n))

    def unpack(self, fmt, off, what):
        s = struct.Struct(self.e + fmt)
        self.need(off, s.size, what)
        return s.unpack_from(self.d, off)


def _detect(data):
    if len(data) < 4:
        raise BBIFormatError("file shorter than a magic number")
    for e in ("<", ">"):
        v = struct.unpack(e + "I", data[:4])[0]
        if v == BIGWIG_MAGIC:
            return "bigwig", e, v
        if v == BIGBED_MAGIC:
            return "bigbed", e, v
    raise BBIFormatError("bad magic %s: neither bigWig nor bigBed in either byte order"
                         % data[:4].hex())


def _parse_header(data):
    kind, e, magic = _detect(data)
    r = _Reader(data, e)
    (m, version, zoom_levels, cto, fdo, fio, fc, dfc, aso, tso, ubs, ext) = \
        r.unpack("IHHQQQHHQQIQ", 0, "file header")
    h = dict(kind=kind, e=e, magic=magic, version=version, zoom_levels=zoom_levels,
             chrom_tree_offset=cto, full_data_offset=fdo, full_index_offset=fio,
             field_count=fc, defined_field_count=dfc, autosql_offset=aso,
             total_summary_offset=tso, uncompress_buf_size=ubs, extension_offset=ext)
    zh = []
    for i in range(zoom_levels):
        red, resv, doff, ioff = r.unpack("IIQQ", 64 + 24 * i, "zoom header %d" % i)
        zh.append(dict(reduction=red, reserved=resv, data_offset=doff, index_offset=ioff))
    h["zoom_headers"] = zh
    return h, r


def _read_autosql(r, off):
    r.need(off, 1, "autoSql")
    end = r.d.find(b"\0", off)
    if end < 0:
        raise BBIFormatError("autoSql at %d is not NUL-terminated" % off)
    return r.d[off:end]


def _read_summary(r, off):
    bc, mn, mx, sm, sq = r.unpack("Qdddd", off, "total summary")
    return dict(bases_covered=bc, min=mn, max=mx, sum=sm, sum_squares=sq,
                raw_hex=bytes(r.d[off:off + 40]).hex())


# --------------------------------------------------------------------------
# B+ tree (chromosome names)
# --------------------------------------------------------------------------

def _walk_bpt(r, off):
    magic, block_size, key_size, val_size, item_count, reserved = \
        r.unpack("IIIIQQ", off, "chromosome tree header")
    if magic != BPT_MAGIC:
        raise BBIFormatError("chromosome tree at %d: magic %08x, expected %08x"
                             % (off, magic, BPT_MAGIC))
    if val_size != 8:
        raise BBIFormatError("chromosome tree: valSize %d, expected 8" % val_size)
    if key_size < 1 or key_size > 65535:
        raise BBIFormatError("chromosome tree: implausible keySize %d" % key_size)
    t = dict(offset=off, block_size=block_size, key_size=key_size, val_size=val_size,
             item_count=item_count, reserved=reserved, nodes=[], leaves=[],
             leaf_levels=set())
    seen = set()
    isz = key_size + 8

    def node(noff, level, pkey):
        if noff in seen:
            raise BBIFormatError("chromosome tree: node at %d reachable twice" % noff)
        if level >= MAX_DEPTH:
            raise BBIFormatError("chromosome tree deeper than %d levels" % MAX_DEPTH)
        seen.add(noff)
        is_leaf, resv, count = r.unpack("BBH", noff, "chromosome tree node at %d" % noff)
        if is_leaf not in (0, 1):
            raise BBIFormatError("chromosome tree node at %d: isLeaf = %d" % (noff, is_leaf))
        r.need(noff + 4, count * isz, "chromosome tree node at %d (%d items)" % (noff, count))
        nd = dict(offset=noff, level=level, is_leaf=is_leaf, reserved=resv, count=count,
                  parent_key=pkey, end=noff + 4 + count * isz, items=[])
        t["nodes"].append(nd)
        p = noff + 4
        if is_leaf:
            t["leaf_levels"].add(level)
            for _ in range(count):
                key = bytes(r.d[p:p + key_size])
                cid, csz = struct.unpack_from(r.e + "II", r.d, p + key_size)
                nd["items"].append((key, cid, csz))
                t["leaves"].append((key, cid, csz))
                p += isz
        else:
            kids = []
            for _ in range(count):
                key = bytes(r.d[p:p + key_size])
                child = struct.unpack_from(r.e + "Q", r.d, p + key_size)[0]
                nd["items"].append((key, child))
                kids.append((key, child))
                p += isz
            for key, child in kids:
                node(child, level + 1, key)

    node(off + 32, 0, None)
    t["depth"] = (max(t["leaf_levels"]) + 1) if t["leaf_levels"] else 1
    return t


def _key_name(key):
    return key.split(b"\0", 1)[0].decode("latin-1")


# --------------------------------------------------------------------------
# R tree (cirTree)
# --------------------------------------------------------------------------

def _walk_rtree(r, off, what):
    (magic, block_size, item_count, sc, sb, ec, eb, end_off, ips, resv) = \
        r.unpack("IIQIIIIQII", off, what + " header")
    if magic != CIR_MAGIC:
        raise BBIFormatError("%s at %d: magic %08x, expected %08x" % (what, off, magic, CIR_MAGIC))
    t = dict(offset=off, block_size=block_size, item_count=item_count,
             bounds=[sc, sb, ec, eb], end_file_offset=end_off, items_per_slot=ips,
             reserved=resv, nodes=[], leaves=[], leaf_levels=set())
    seen = set()

    def node(noff, level, pspan):
        if noff in seen:
            raise BBIFormatError("%s: node at %d reachable twice" % (what, noff))
        if level >= MAX_DEPTH:
            raise BBIFormatError("%s deeper than %d levels" % (what, MAX_DEPTH))
        seen.add(noff)
        is_leaf, nresv, count = r.unpack("BBH", noff, "%s node at %d" % (what, noff))
        if is_leaf not in (0, 1):
            raise BBIFormatError("%s node at %d: isLeaf = %d" % (what, noff, is_leaf))
        isz = 32 if is_leaf else 24
        r.need(noff + 4, count * isz, "%s node at %d (%d items)" % (what, noff, count))
        nd = dict(offset=noff, level=level, is_leaf=is_leaf, reserved=nresv, count=count,
                  span=pspan, end=noff + 4 + count * isz, items=[])
        t["nodes"].append(nd)
        body = bytes(r.d[noff + 4:noff + 4 + count * isz])
        if is_leaf:
            t["leaf_levels"].add(level)
            for it in struct.iter_unpack(r.e + "IIIIQQ", body):
                nd["items"].append(it)
                t["leaves"].append(dict(span=list(it[:4]), offset=it[4], size=it[5],
                                        node=noff))
        else:
            for it in struct.iter_unpack(r.e + "IIIIQ", body):
                nd["items"].append(it)
            for it in nd["items"]:
                node(it[4], level + 1, tuple(it[:4]))

    node(off + 48, 0, None)
    t["depth"] = (max(t["leaf_levels"]) + 1) if t["leaf_levels"] else 1
    return t


def _index_public(t):
    return dict(block_size=t["block_size"], item_count=t["item_count"],
                items_per_slot=t["items_per_slot"], bounds=list(t["bounds"]),
                end_file_offset=t["end_file_offset"], depth=t["depth"],
                leaves=[dict(span=l["span"], offset=l["offset"], size=l["size"])
                        for l in t["leaves"]])


# --------------------------------------------------------------------------
# data blocks
# --------------------------------------------------------------------------

def _inflate(raw, compressed, what):
    if not compressed:
        return bytes(raw)
    d = zlib.decompressobj()
    try:
        out = d.decompress(bytes(raw), MAX_INFLATE)
    except zlib.error as x:
        raise BBIFormatError("%s: not a valid zlib stream (%s)" % (what, x))
    if d.unconsumed_tail:
        raise BBIFormatError("%s: inflates to more than %d bytes" % (what, MAX_INFLATE))
    if not d.eof:
        raise BBIFormatError("%s: zlib stream is truncated" % what)
    if d.unused_data:
        raise BBIFormatError("%s: %d bytes of junk after the zlib stream"
                             % (what, len(d.unused_data)))
    return out


_WIG_ITEM = {1: 12, 2: 8, 3: 4}


def _parse_wig_section(e, buf, what):
    if len(buf) < 24:
        raise BBIFormatError("%s: %d bytes, shorter than a section header" % (what, len(buf)))
    chrom, start, end, step, span, typ, resv, count = struct.unpack_from(e + "IIIIIBBH", buf, 0)
    if typ not in _WIG_ITEM:
        raise BBIFormatError("%s: section type %d (expected 1, 2 or 3)" % (what, typ))
    need = 24 + count * _WIG_ITEM[typ]
    if len(buf) != need:
        raise BBIFormatError("%s: type %d section with %d items needs %d bytes, block holds %d"
                             % (what, typ, count, need, len(buf)))
    items = []
    if typ == 1:
        v = struct.unpack_from(e + "%dI" % (3 * count), buf, 24)
        for i in range(count):
            items.append([v[3 * i], v[3 * i + 1], "%08x" % v[3 * i + 2]])
    elif typ == 2:
        v = struct.unpack_from(e + "%dI" % (2 * count), buf, 24)
        for i in range(count):
            items.append([v[2 * i], v[2 * i] + span, "%08x" % v[2 * i + 1]])
    else:
        v = struct.unpack_from(e + "%dI" % count, buf, 24)
        for i in range(count):
            s = start + i * step
            items.append([s, s + span, "%08x" % v[i]])
    return dict(chrom_id=chrom, type=typ, start=start, end=end, step=step, span=span,
                reserved=resv, items=items)


def _parse_bed_block(e, buf, what):
    items = []
    p, n = 0, len(buf)
    while p < n:
        if p + 12 > n:
            raise BBIFormatError("%s: %d stray bytes after the last record" % (what, n - p))
        chrom, s, en = struct.unpack_from(e + "III", buf, p)
        z = buf.find(b"\0", p + 12)
        if z < 0:
            raise BBIFormatError("%s: record at +%d has no terminating NUL" % (what, p))
        items.append([chrom, s, en, buf[p + 12:z].hex()])
        p = z + 1
    return items


def _parse_zoom_block(e, buf, what):
    if len(buf) % 32:
        raise BBIFormatError("%s: %d bytes is not a multiple of the 32-byte zoom record"
                             % (what, len(buf)))
    recs, bits = [], []
    for c, s, en, v, mn, mx, sm, sq in struct.iter_unpack(e + "IIIIIIII", buf):
        recs.append([c, s, en, v, _u32_to_f(mn), _u32_to_f(mx), _u32_to_f(sm), _u32_to_f(sq)])
        bits.append(["%08x" % mn, "%08x" % mx, "%08x" % sm, "%08x" % sq])
    return recs, bits


def _load_block(r, leaf, compressed, what):
    off, size = leaf["offset"], leaf["size"]
    r.need(off, size, what)
    return _inflate(r.d[off:off + size], compressed, what)


# --------------------------------------------------------------------------
# decode
# --------------------------------------------------------------------------

def decode(data, floats=False):
    """Decode a whole bigWig/bigBed file.  Raises BBIFormatError when the file
    cannot be decoded.  (Semantic well-formedness is judged by check().)

    With floats=True every bigWig item gets a 4th element, the value as a
    Python float (the 3rd element is always the raw binary32 bit pattern)."""
    data = bytes(data)
    h, r = _parse_header(data)
    e, kind = h["e"], h["kind"]
    compressed = h["uncompress_buf_size"] > 0
    out = dict(kind=kind, endian="little" if e == "<" else "big", version=h["version"],
               field_count=h["field_count"], defined_field_count=h["defined_field_count"],
               uncompress_buf_size=h["uncompress_buf_size"],
               extension_offset=h["extension_offset"],
               offsets=dict(chrom_tree=h["chrom_tree_offset"], full_data=h["full_data_offset"],
                            full_index=h["full_index_offset"], autosql=h["autosql_offset"],
                            total_summary=h["total_summary_offset"]))
    out["autosql"] = (_read_autosql(r, h["autosql_offset"]).decode("latin-1")
                      if h["autosql_offset"] else None)
    out["summary"] = (_read_summary(r, h["total_summary_offset"])
                      if h["total_summary_offset"] else None)
    out["data_count"] = r.unpack("Q", h["full_data_offset"], "dataCount")[0]
    bpt = _walk_bpt(r, h["chrom_tree_offset"])
    out["chroms"] = [dict(name=_key_name(k), id=i, size=s) for k, i, s in bpt["leaves"]]
    out["chrom_tree"] = dict(block_size=bpt["block_size"], key_size=bpt["key_size"],
                             depth=bpt["depth"], item_count=bpt["item_count"])
    idx = _walk_rtree(r, h["full_index_offset"], "main index")
    out["index"] = _index_public(idx)
    inflate_table = []
    blocks = []
    per_chrom = {}
    for n, leaf in enumerate(idx["leaves"]):
        what = "data block %d at %d" % (n, leaf["offset"])
        buf = _load_block(r, leaf, compressed, what)
        if compressed:
            inflate_table.append([leaf["offset"], leaf["size"], buf.hex()])
        b = dict(offset=leaf["offset"], size=leaf["size"], inflated_size=len(buf))
        if kind == "bigwig":
            sec = _parse_wig_section(e, buf, what)
            if floats:
                for it in sec["items"]:
                    it.append(bits_to_float(it[2]))
            b.update(sec)
            per_chrom.setdefault(sec["chrom_id"], []).extend(sec["items"])
        else:
            items = _parse_bed_block(e, buf, what)
            b["chrom_id"] = items[0][0] if items else None
            b["items"] = items
            for c, s, en, rest in items:
                per_chrom.setdefault(c, []).append([s, en, rest])
        blocks.append(b)
    out["blocks"] = blocks
    out["values" if kind == "bigwig" else "entries"] = per_chrom
    zooms = []
    for zi, zh in enumerate(h["zoom_headers"]):
        zt = _walk_rtree(r, zh["index_offset"], "zoom %d index" % zi)
        recs, bits, zblocks = [], [], []
        for n, leaf in enumerate(zt["leaves"]):
            what = "zoom %d block %d at %d" % (zi, n, leaf["offset"])
            buf = _load_block(r, leaf, compressed, what)
            if compressed:
                inflate_table.append([leaf["offset"], leaf["size"], buf.hex()])
            rr, bb = _parse_zoom_block(e, buf, what)
            zblocks.append(dict(offset=leaf["offset"], size=leaf["size"],
                                inflated_size=len(buf), first=len(recs), count=len(rr)))
            recs.extend(rr)
            bits.extend(bb)
        z = dict(reduction=zh["reduction"], data_offset=zh["data_offset"],
                 index_offset=zh["index_offset"], index=_index_public(zt),
                 records=recs, records_bits=bits, blocks=zblocks)
        # kent writes a u32 record count at dataOffset, directly before the first
        # zoom block; other writers start the first block at dataOffset.
        z["count_field"] = None
        if zblocks and min(b["offset"] for b in zblocks) == zh["data_offset"] + 4:
            z["count_field"] = r.unpack("I", zh["data_offset"], "zoom count")[0]
        zooms.append(z)
    out["zooms"] = zooms
    out["inflate_table"] = inflate_table
    out["file_size"] = len(data)
    return out


# --------------------------------------------------------------------------
# query (linear scans over the decoded content)
# --------------------------------------------------------------------------

def _chrom_id(dec, chrom_name):
    for c in dec["chroms"]:
        if c["name"] == chrom_name:
            return c["id"]
    return None


def query(dec, chrom_name, start, end):
    cid = _chrom_id(dec, chrom_name)
    if cid is None:
        return []
    if dec["kind"] == "bigwig":
        res = []
        for it in dec["values"].get(cid, []):
            s, e = it[0], it[1]
            if e > start and s < end:
                res.append([max(s, start), min(e, end), it[2]])
        return res
    return [list(it) for it in dec["entries"].get(cid, []) if it[0] < end and it[1] > start]


def query_touching(dec, chrom_name, start, end):
    cid = _chrom_id(dec, chrom_name)
    if cid is None:
        return []
    key = "values" if dec["kind"] == "bigwig" else "entries"
    return [list(it) for it in dec[key].get(cid, []) if it[1] >= start and it[0] <= end]


# --------------------------------------------------------------------------
# check: shared context
# --------------------------------------------------------------------------

class _Ctx:
    """Parses each part of the file once, remembering a fatal error per part so
    that every check family can report 'not checkable' instead of crashing."""

    def __init__(self, data, sorted_chrom_keys, strict_ips, summary_tol=1e-6, zoom_tol=1e-5):
        self.data = bytes(data)
        self.summary_tol = summary_tol
        self.zoom_tol = zoom_tol
        self.sorted_chrom_keys = sorted_chrom_keys
        self.strict_ips = strict_ips
        self.h, self.r = _parse_header(self.data)      # may raise
        self.kind, self.e = self.h["kind"], self.h["e"]
        self.compressed = self.h["uncompress_buf_size"] > 0
        self._memo = {}

    def _get(self, key, fn):
        if key not in self._memo:
            try:
                self._memo[key] = (fn(), None)
            except BBIFormatError as x:
                self._memo[key] = (None, str(x))
        val, err = self._memo[key]
        if err is not None:
            raise BBIFormatError(err)
        return val

    def bpt(self):
        return self._get("bpt", lambda: _walk_bpt(self.r, self.h["chrom_tree_offset"]))

    def chrom_sizes(self):
        return {cid: size for _, cid, size in self.bpt()["leaves"]}

    def rtree(self, zi=None):
        if zi is None:
            return self._get("idx", lambda: _walk_rtree(self.r, self.h["full_index_offset"],
                                                        "main index"))
        return self._get(("zidx", zi), lambda: _walk_rtree(
            self.r, self.h["zoom_headers"][zi]["index_offset"], "zoom %d index" % zi))

    def main_blocks(self):
        """[(leaf, inflated bytes or None, parsed or None, error or None)]"""
        def load():
            res = []
            for n, leaf in enumerate(self.rtree()["leaves"]):
                what = "data block %d at %d" % (n, leaf["offset"])
                buf = parsed = err = None
                try:
                    buf = _load_block(self.r, leaf, self.compressed, what)
                    if self.kind == "bigwig":
                        parsed = _parse_wig_section(self.e, buf, what)
                    else:
                        parsed = _parse_bed_block(self.e, buf, what)
                except BBIFormatError as x:
                    err = str(x)
                res.append((leaf, buf, parsed, err))
            return res
        return self._get("blocks", load)

    def zoom_blocks(self, zi):
        def load():
            res = []
            for n, leaf in enumerate(self.rtree(zi)["leaves"]):
                what = "zoom %d block %d at %d" % (zi, n, leaf["offset"])
                buf = recs = err = None
                try:
                    buf = _load_block(self.r, leaf, self.compressed, what)
                    recs = _parse_zoom_block(self.e, buf, what)[0]
                except BBIFormatError as x:
                    err = str(x)
                res.append((leaf, buf, recs, err))
            return res
        return self._get(("zblocks", zi), load)

    def segments(self):
        """chrom_id -> sorted disjoint [(start, end, value)] with end > start:
        bigWig: the items themselves (None for a chromosome whose items are
        unsorted/overlapping); bigBed: runs of constant coverage depth >= 1."""
        def build():
            per = {}
            for leaf, buf, parsed, err in self.main_blocks():
                if err is not None:
                    raise BBIFormatError("data not decodable: " + err)
                if self.kind == "bigwig":
                    per.setdefault(parsed["chrom_id"], []).extend(
                        (s, e, bits_to_float(b)) for s, e, b in parsed["items"])
                else:
                    for c, s, e, _ in parsed:
                        per.setdefault(c, []).append((s, e))
            segs = {}
            for c, items in per.items():
                if self.kind == "bigwig":
                    lst = [it for it in items if it[1] > it[0]]
                    ok = all(lst[i][0] >= lst[i - 1][1] for i in range(1, len(lst)))
                    segs[c] = lst if ok else None
                else:
                    delta = {}
                    for s, e in items:
                        if e > s:
                            delta[s] = delta.get(s, 0) + 1
                            delta[e] = delta.get(e, 0) - 1
                    lst, depth, prev = [], 0, None
                    for p in sorted(delta):
                        if depth > 0 and p > prev:
                            lst.append((prev, p, float(depth)))
                        depth += delta[p]
                        prev = p
                    segs[c] = lst
            return segs
        return self._get("segments", build)


def _lex_le(a, b):
    return (a[0], a[1]) <= (b[0], b[1])


def _stats(segs):
    """Exact float64 statistics of disjoint (start, end, value) runs:
    (bases, min, max, sum, sumsq, sum_abs, sumsq_abs)."""
    bases = 0
    mn = mx = None
    terms, sq = [], []
    for s, e, v in segs:
        n = e - s
        bases += n
        terms.append(v * n)
        sq.append(v * v * n)
        if mn is None or v < mn:
            mn = v
        if mx is None or v > mx:
            mx = v
    return (bases, mn, mx, math.fsum(terms), math.fsum(sq),
            math.fsum(abs(t) for t in terms), math.fsum(sq))


def _close(got, exp, tol, scale=0.0):
    if exp != exp:
        return got != got
    if got == exp:
        return True
    if got != got or abs(got) == float("inf") or abs(exp) == float("inf"):
        return False
    return abs(got - exp) <= tol * max(abs(exp), scale)


# --------------------------------------------------------------------------
# check family: header
# --------------------------------------------------------------------------

def _check_header(cx):
    P = []
    h, r, n = cx.h, cx.r, len(cx.data)
    e = cx.e
    if n < 68:
        P.append("file of %d bytes cannot hold a header and a trailing magic" % n)
    tail = struct.unpack(e + "I", cx.data[-4:])[0]
    if tail != h["magic"]:
        P.append("trailing magic is %08x, expected %08x" % (tail, h["magic"]))
    body_end = n - 4
    if not 1 <= h["version"] <= 4:
        P.append("version %d is outside 1..4" % h["version"])
    z = h["zoom_levels"]
    if z > 10:
        P.append("zoomLevels %d exceeds 10" % z)
    zend = 64 + 24 * z
    last = 0
    for i, zh in enumerate(h["zoom_headers"]):
        if zh["reduction"] <= last:
            P.append("zoom %d: reduction %d is not greater than the previous level's %d"
                     % (i, zh["reduction"], last))
        last = max(last, zh["reduction"])
        if zh["reserved"] != 0:
            P.append("zoom %d: reserved field is %d, not 0" % (i, zh["reserved"]))
        for nm, off, sz in (("dataOffset", zh["data_offset"], 1),
                            ("indexOffset", zh["index_offset"], 48)):
            if off < zend or off + sz > body_end:
                P.append("zoom %d: %s %d (+%d) is outside the file body [%d,%d)"
                         % (i, nm, off, sz, zend, body_end))
    regions = [(0, 64, "header")]
    if z:
        regions.append((64, zend, "zoom headers"))

    def offcheck(nm, off, sz):
        if off < zend or off + sz > body_end:
            P.append("%s %d (+%d bytes) is outside the file body [%d,%d)"
                     % (nm, off, sz, zend, body_end))
            return False
        return True

    offcheck("chromosomeTreeOffset", h["chrom_tree_offset"], 32 + 4)
    offcheck("fullIndexOffset", h["full_index_offset"], 48 + 4)
    dc_size = _data_count_width(cx)
    if offcheck("fullDataOffset", h["full_data_offset"], dc_size):
        regions.append((h["full_data_offset"], h["full_data_offset"] + dc_size, "dataCount"))
    order = [("zoom headers", zend)]
    aso, tso = h["autosql_offset"], h["total_summary_offset"]
    if cx.kind == "bigwig":
        if h["field_count"] or h["defined_field_count"]:
            P.append("bigWig with fieldCount %d / definedFieldCount %d (expected 0/0)"
                     % (h["field_count"], h["defined_field_count"]))
        if aso:
            P.append("bigWig with a non-zero autoSqlOffset %d" % aso)
    else:
        if h["field_count"] < 3:
            P.append("bigBed fieldCount %d is below 3" % h["field_count"])
        if h["defined_field_count"] > h["field_count"]:
            P.append("definedFieldCount %d exceeds fieldCount %d"
                     % (h["defined_field_count"], h["field_count"]))
    if aso and offcheck("autoSqlOffset", aso, 1):
        try:
            s = _read_autosql(r, aso)
            if aso + len(s) + 1 > body_end:
                P.append("autoSql runs into the trailing magic")
            regions.append((aso, aso + len(s) + 1, "autoSql"))
            order.append(("autoSql", aso))
            order.append(("end of autoSql", aso + len(s) + 1))
        except BBIFormatError as x:
            P.append(str(x))
    if tso:
        if offcheck("totalSummaryOffset", tso, 40):
            regions.append((tso, tso + 40, "total summary"))
            order.append(("total summary", tso))
            order.append(("end of total summary", tso + 40))
    elif h["version"] >= 2:
        P.append("version %d file without a total summary (totalSummaryOffset 0)" % h["version"])
    order.append(("fullDataOffset", h["full_data_offset"]))
    for (na, a), (nb, b) in zip(order, order[1:]):
        if a > b:
            P.append("region order: %s (%d) lies after %s (%d)" % (na, a, nb, b))
    ext = h["extension_offset"]
    if ext:
        # The last header field is 'reserved' in versions 1-3 and
        # extensionOffset in kent's version 4 bigBed files.  Tolerated when it
        # points at a plausible extension header (u16 size >= 64) in the file.
        ok = False
        if zend <= ext and ext + 64 <= body_end:
            size = struct.unpack_from(e + "H", cx.data, ext)[0]
            ok = size >= 64 and ext + size <= body_end
            if ok:
                regions.append((ext, ext + size, "extension header"))
        if not ok:
            P.append("reserved/extensionOffset field is %d and does not point at an "
                     "extension header" % ext)
    # everything that can be located, for the overlap test
    try:
        for nd in cx.bpt()["nodes"]:
            regions.append((nd["offset"], nd["end"], "chromosome tree node"))
        regions.append((h["chrom_tree_offset"], h["chrom_tree_offset"] + 32,
                        "chromosome tree header"))
    except BBIFormatError:
        pass
    for zi in [None] + list(range(z)):
        nm = "main index" if zi is None else "zoom %d index" % zi
        try:
            t = cx.rtree(zi)
        except BBIFormatError:
            continue
        regions.append((t["offset"], t["offset"] + 48, nm + " header"))
        for nd in t["nodes"]:
            regions.append((nd["offset"], nd["end"], nm + " node"))
        for lf in t["leaves"]:
            if lf["size"]:
                regions.append((lf["offset"], lf["offset"] + lf["size"],
                                "data block" if zi is None else "zoom %d block" % zi))
            if zi is None and lf["offset"] < h["full_data_offset"] + dc_size:
                P.append("data block at %d lies before the end of dataCount (%d)"
                         % (lf["offset"], h["full_data_offset"] + dc_size))
    regions.append((body_end, n, "trailing magic"))
    regions.sort()
    shown = 0
    for (a0, a1, an), (b0, b1, bn) in zip(regions, regions[1:]):
        if b0 < a1 and shown < 20:
            P.append("regions overlap: %s [%d,%d) and %s [%d,%d)" % (an, a0, a1, bn, b0, b1))
            shown += 1
    return P


def _data_count_width(cx):
    """Width of the dataCount field.  kent's writers emit a u64 (bits64
    dataCount); the table in the paper's supplement gives 4 bytes and some
    writers (old bigtools, e.g. resources/test/valid.bigWig) followed it.  No
    reader needs the field, so the 4-byte form is tolerated when the first
    data block starts exactly 4 bytes after fullDataOffset."""
    try:
        offs = [l["offset"] for l in cx.rtree()["leaves"]]
    except BBIFormatError:
        return 8
    if offs and min(offs) == cx.h["full_data_offset"] + 4:
        return 4
    return 8


# --------------------------------------------------------------------------
# check family: chromosome tree
# --------------------------------------------------------------------------

def _check_chromtree(cx):
    P = []
    try:
        t = cx.bpt()
    except BBIFormatError as x:
        return [str(x)]
    if t["block_size"] < 1:
        P.append("blockSize is 0")
    if t["reserved"] != 0:
        P.append("header reserved field is %d, not 0" % t["reserved"])
    if len(t["leaf_levels"]) > 1:
        P.append("leaves at different depths %s" % sorted(t["leaf_levels"]))
    for nd in t["nodes"]:
        w = "node at %d" % nd["offset"]
        if nd["reserved"] != 0:
            P.append("%s: reserved byte is %d, not 0" % (w, nd["reserved"]))
        if nd["count"] > t["block_size"]:
            P.append("%s: %d items exceed blockSize %d" % (w, nd["count"], t["block_size"]))
        if nd["count"] == 0 and not (nd["level"] == 0 and nd["is_leaf"] and t["item_count"] == 0):
            P.append("%s: empty node" % w)
    if t["item_count"] != len(t["leaves"]):
        P.append("itemCount %d but the leaves hold %d items" % (t["item_count"], len(t["leaves"])))
    ids = [cid for _, cid, _ in t["leaves"]]
    if len(set(ids)) != len(ids):
        P.append("chromosome ids are not unique: %s" % sorted(i for i in set(ids) if ids.count(i) > 1)[:10])
    elif sorted(ids) != list(range(len(ids))):
        P.append("chromosome ids are not dense 0..%d: %s" % (len(ids) - 1, sorted(ids)[:20]))
    names = []
    for key, cid, size in t["leaves"]:
        nm = key.split(b"\0", 1)[0]
        if key[len(nm):].strip(b"\0"):
            P.append("key %r has non-NUL bytes after its NUL padding" % key)
        if not nm:
            P.append("empty chromosome name (id %d)" % cid)
        names.append(nm)
    if len(set(names)) != len(names):
        P.append("duplicate chromosome names")
    if cx.sorted_chrom_keys:
        for nd in t["nodes"]:
            keys = [it[0] for it in nd["items"]]
            for a, b in zip(keys, keys[1:]):
                if not a < b:
                    P.append("node at %d: keys %r, %r not in increasing order"
                             % (nd["offset"], a, b))
                    break
        allk = [k for k, _, _ in t["leaves"]]
        if any(not a < b for a, b in zip(allk, allk[1:])):
            P.append("keys are not increasing across the leaves (lookup by bisection fails)")
        # a non-leaf key must not exceed the smallest key below it, and must
        # exceed everything under the previous sibling (kent: bptFind descends
        # into the last child whose key <= query)
        by_off = {nd["offset"]: nd for nd in t["nodes"]}

        def bounds(nd):
            if nd["is_leaf"]:
                ks = [it[0] for it in nd["items"]]
                return (min(ks), max(ks)) if ks else None
            bs = [bounds(by_off[c]) for _, c in nd["items"] if c in by_off]
            bs = [b for b in bs if b]
            return (min(b[0] for b in bs), max(b[1] for b in bs)) if bs else None

        for nd in t["nodes"]:
            if nd["is_leaf"]:
                continue
            prev_hi = None
            for i, (key, child) in enumerate(nd["items"]):
                b = bounds(by_off[child])
                if b is None:
                    continue
                if i > 0 and key > b[0]:
                    P.append("node at %d: separator %r is greater than key %r below it"
                             % (nd["offset"], key, b[0]))
                if prev_hi is not None and not prev_hi < key:
                    P.append("node at %d: separator %r does not exceed key %r under the "
                             "previous child" % (nd["offset"], key, prev_hi))
                prev_hi = b[1]
    return P


# --------------------------------------------------------------------------
# check family: index (every R tree)
# --------------------------------------------------------------------------

def _check_rtree(cx, t, nm):
    P = []
    n = len(cx.data)
    if t["block_size"] < 1:
        P.append("%s: blockSize is 0" % nm)
    if t["reserved"] != 0:
        P.append("%s: header reserved field is %d, not 0" % (nm, t["reserved"]))
    if t["items_per_slot"] < 1:
        P.append("%s: itemsPerSlot is 0" % nm)
    if len(t["leaf_levels"]) > 1:
        P.append("%s: leaves at different depths %s" % (nm, sorted(t["leaf_levels"])))
    hb = tuple(t["bounds"])
    for nd in t["nodes"]:
        w = "%s node at %d" % (nm, nd["offset"])
        if nd["reserved"] != 0:
            P.append("%s: reserved byte is %d, not 0" % (w, nd["reserved"]))
        if nd["count"] > t["block_size"]:
            P.append("%s: %d items exceed blockSize %d" % (w, nd["count"], t["block_size"]))
        if nd["count"] == 0 and not (nd["level"] == 0 and nd["is_leaf"] and t["item_count"] == 0):
            P.append("%s: empty node" % w)
        outer = nd["span"] if nd["span"] is not None else hb
        oname = "the span its parent records" if nd["span"] is not None else "the header bounds"
        for it in nd["items"]:
            sp = it[:4]
            if not _lex_le(sp[0:2], sp[2:4]):
                P.append("%s: item span %s ends before it starts" % (w, list(sp)))
            if not (_lex_le(outer[0:2], sp[0:2]) and _lex_le(sp[2:4], outer[2:4])):
                P.append("%s: item span %s is not contained in %s %s"
                         % (w, list(sp), oname, list(outer)))
    if t["item_count"] != len(t["leaves"]):
        P.append("%s: itemCount %d but the leaves hold %d items"
                 % (nm, t["item_count"], len(t["leaves"])))
    prev = None
    for lf in t["leaves"]:
        st = (lf["span"][0], lf["span"][1])
        if prev is not None and st < prev:
            P.append("%s: leaf start %s after %s: leaf starts not in non-decreasing order"
                     % (nm, list(st), list(prev)))
        prev = st
        if lf["size"] == 0:
            P.append("%s: leaf %s points at an empty block" % (nm, lf["span"]))
        if lf["offset"] < 64 or lf["offset"] + lf["size"] > n - 4:
            P.append("%s: leaf data [%d,%d) is outside the file body"
                     % (nm, lf["offset"], lf["offset"] + lf["size"]))
        elif lf["offset"] + lf["size"] > t["end_file_offset"]:
            P.append("%s: leaf data [%d,%d) extends past endFileOffset %d"
                     % (nm, lf["offset"], lf["offset"] + lf["size"], t["end_file_offset"]))
    rng = sorted((lf["offset"], lf["offset"] + lf["size"]) for lf in t["leaves"])
    for a, b in zip(rng, rng[1:]):
        if b[0] < a[1]:
            P.append("%s: leaf data ranges [%d,%d) and [%d,%d) overlap" % (nm, a[0], a[1], b[0], b[1]))
    return P


def _check_index(cx):
    P = []
    for zi in [None] + list(range(cx.h["zoom_levels"])):
        nm = "main index" if zi is None else "zoom %d index" % zi
        try:
            t = cx.rtree(zi)
        except BBIFormatError as x:
            P.append(str(x))
            continue
        P.extend(_check_rtree(cx, t, nm))
    return P


# --------------------------------------------------------------------------
# check family: data blocks
# --------------------------------------------------------------------------

def _ips_bound(cx, t):
    """itemsPerSlot bound to enforce on a block, or None.  kent's writers pass
    itemsPerSlot = 1 to the index writer (one index item per data block) while
    packing many items per block, so a header value of 1 says nothing about the
    block population; unless strict_items_per_slot is set it is not enforced."""
    ips = t["items_per_slot"]
    if cx.strict_ips is True:
        return ips
    if cx.strict_ips is False:
        return None
    return ips if ips > 1 else None


def _check_blocks(cx):
    P = []
    h = cx.h
    try:
        t = cx.rtree()
        blocks = cx.main_blocks()
    except BBIFormatError as x:
        return ["data blocks not reachable: %s" % x]
    try:
        sizes = cx.chrom_sizes()
    except BBIFormatError as x:
        sizes = None
        P.append("chromosome sizes unavailable (%s): chromosome bounds not checked" % x)
    bound = _ips_bound(cx, t)
    ubs = h["uncompress_buf_size"]
    n_items = 0
    last = {}            # chrom -> (end of last bigWig item | start of last bigBed item)
    last_chrom = None
    for n, (leaf, buf, parsed, err) in enumerate(blocks):
        w = "data block %d at %d" % (n, leaf["offset"])
        if err is not None:
            P.append(err)
            continue
        if cx.compressed and len(buf) > ubs:
            P.append("%s: inflates to %d bytes, more than uncompressBufSize %d" % (w, len(buf), ubs))
        sc, sb, ec, eb = leaf["span"]
        if sc != ec:
            P.append("%s: leaf span %s covers more than one chromosome" % (w, leaf["span"]))
        if cx.kind == "bigwig":
            items = [(parsed["chrom_id"], s, e) for s, e, _ in parsed["items"]]
            if parsed["reserved"] != 0:
                P.append("%s: section reserved byte is %d, not 0" % (w, parsed["reserved"]))
            if items:
                lo, hi = items[0][1], max(e for _, _, e in items)
                if parsed["start"] != lo or parsed["end"] != hi:
                    P.append("%s: section header range [%d,%d) differs from its items' [%d,%d)"
                             % (w, parsed["start"], parsed["end"], lo, hi))
        else:
            items = [(c, s, e) for c, s, e, _ in parsed]
        n_items += len(items)
        if not items:
            P.append("%s: holds no items" % w)
            continue
        if bound is not None and len(items) > bound:
            P.append("%s: %d items exceed itemsPerSlot %d" % (w, len(items), bound))
        chroms = sorted(set(c for c, _, _ in items))
        if len(chroms) > 1:
            P.append("%s: items of several chromosomes %s in one block" % (w, chroms[:5]))
        if chroms[0] != sc or chroms[-1] != sc:
            P.append("%s: items of chromosome %s under a leaf span of chromosome %d"
                     % (w, chroms[:5], sc))
        for c, s, e in items:
            if s > e:
                P.append("%s: item [%d,%d) ends before it starts" % (w, s, e))
            if c == sc == ec and (s < sb or e > eb):
                P.append("%s: item [%d,%d) is outside the leaf span [%d,%d]" % (w, s, e, sb, eb))
                break
        if last_chrom is not None and chroms[0] < last_chrom:
            P.append("%s: chromosome %d after chromosome %d (blocks not in chromosome order)"
                     % (w, chroms[0], last_chrom))
        last_chrom = chroms[-1]
        for c, s, e in items:
            if cx.kind == "bigwig":
                if c in last and s < last[c]:
                    P.append("%s: item [%d,%d) starts before the previous item's end %d "
                             "(items must be sorted and disjoint)" % (w, s, e, last[c]))
                    last[c] = max(last[c], e)
                    break
                last[c] = e
            else:
                if c in last and s < last[c]:
                    P.append("%s: entry [%d,%d) starts before the previous entry's start %d "
                             "(entries must be sorted by start)" % (w, s, e, last[c]))
                    break
                last[c] = s
        if sizes is not None:
            for c, s, e in items:
                if c not in sizes:
                    P.append("%s: chromosome id %d is not in the chromosome tree" % (w, c))
                    break
                size = sizes[c]
                if cx.kind == "bigwig":
                    bad = e > size
                else:
                    bad = e > size or not (s < size or (s == e == size))
                if bad:
                    P.append("%s: item [%d,%d) is outside chromosome %d of size %d"
                             % (w, s, e, c, size))
                    break
    width = _data_count_width(cx)
    try:
        dc = cx.r.unpack("Q" if width == 8 else "I", h["full_data_offset"], "dataCount")[0]
        want = len(blocks) if cx.kind == "bigwig" else n_items
        if dc != want:
            P.append("dataCount is %d, the file holds %d %s"
                     % (dc, want, "sections" if cx.kind == "bigwig" else "items"))
    except BBIFormatError as x:
        P.append(str(x))
    return P


def _check_fields(cx):
    """Opt-in: every bigBed record carries fieldCount-3 tab separated fields."""
    if cx.kind != "bigbed":
        return []
    P = []
    want = cx.h["field_count"] - 3
    try:
        blocks = cx.main_blocks()
    except BBIFormatError as x:
        return [str(x)]
    for n, (leaf, buf, parsed, err) in enumerate(blocks):
        if err is not None:
            continue
        for c, s, e, rest in parsed:
            rb = bytes.fromhex(rest)
            got = len(rb.split(b"\t")) if rb else 0
            if got != want:
                P.append("data block %d: entry %d:[%d,%d) has %d extra fields, fieldCount-3 = %d"
                         % (n, c, s, e, got, want))
                break
    return P


# --------------------------------------------------------------------------
# check family: total summary
# --------------------------------------------------------------------------

def _total_stats(segs_by_chrom):
    allsegs = []
    for c in sorted(segs_by_chrom):
        if segs_by_chrom[c] is None:
            raise BBIFormatError("items of chromosome %d are unsorted or overlapping" % c)
        allsegs.extend(segs_by_chrom[c])
    return _stats(allsegs)


def _check_summary(cx):
    P = []
    tso = cx.h["total_summary_offset"]
    if not tso:
        return P            # absence is judged by the header family
    try:
        s = _read_summary(cx.r, tso)
        bases, mn, mx, sm, sq, sabs, _ = _total_stats(cx.segments())
    except BBIFormatError as x:
        return ["total summary not checkable: %s" % x]
    tol = cx.summary_tol
    if s["bases_covered"] != bases:
        P.append("total summary basesCovered %d, data cover %d bases" % (s["bases_covered"], bases))
    if bases:
        if not _close(s["min"], mn, tol):
            P.append("total summary minVal %r, data minimum %r" % (s["min"], mn))
        if not _close(s["max"], mx, tol):
            P.append("total summary maxVal %r, data maximum %r" % (s["max"], mx))
    if not _close(s["sum"], sm, tol, sabs):
        P.append("total summary sumData %r, data sum %r" % (s["sum"], sm))
    if not _close(s["sum_squares"], sq, tol, sq):
        P.append("total summary sumSquares %r, data sum of squares %r" % (s["sum_squares"], sq))
    return P


# --------------------------------------------------------------------------
# check family: zooms
# --------------------------------------------------------------------------

def _range_stats(segs, starts, rs, re):
    """Statistics of the runs in segs clipped to [rs, re)."""
    i = bisect.bisect_right(starts, rs) - 1
    if i < 0 or segs[i][1] <= rs:
        i += 1
    clipped = []
    while i < len(segs) and segs[i][0] < re:
        s, e, v = segs[i]
        clipped.append((max(s, rs), min(e, re), v))
        i += 1
    return _stats(clipped)


def _check_zooms(cx):
    P = []
    try:
        segs = cx.segments()
    except BBIFormatError as x:
        segs = None
        P.append("zoom statistics not checkable: %s" % x)
    starts = {}
    if segs is not None:
        for c, lst in segs.items():
            if lst is not None:
                starts[c] = [s for s, _, _ in lst]
    try:
        sizes = cx.chrom_sizes()
    except BBIFormatError:
        sizes = None
    tol = cx.zoom_tol
    for zi, zh in enumerate(cx.h["zoom_headers"]):
        nm = "zoom %d (reduction %d)" % (zi, zh["reduction"])
        try:
            t = cx.rtree(zi)
            blocks = cx.zoom_blocks(zi)
        except BBIFormatError as x:
            P.append("%s: %s" % (nm, x))
            continue
        bound = _ips_bound(cx, t)
        ubs = cx.h["uncompress_buf_size"]
        recs = []
        for n, (leaf, buf, rr, err) in enumerate(blocks):
            w = "%s block %d at %d" % (nm, n, leaf["offset"])
            if err is not None:
                P.append(err)
                continue
            if cx.compressed and len(buf) > ubs:
                P.append("%s: inflates to %d bytes, more than uncompressBufSize %d"
                         % (w, len(buf), ubs))
            if not rr:
                P.append("%s: holds no records" % w)
            if bound is not None and len(rr) > bound:
                P.append("%s: %d records exceed itemsPerSlot %d" % (w, len(rr), bound))
            sp = leaf["span"]
            for rec in rr:
                if not (_lex_le(sp[0:2], (rec[0], rec[1])) and _lex_le((rec[0], rec[2]), sp[2:4])):
                    P.append("%s: record %s is outside the leaf span %s" % (w, rec[:3], sp))
                    break
            recs.extend(rr)
        if zh["data_offset"] + 4 <= len(cx.data) and blocks and \
                min(b[0]["offset"] for b in blocks) == zh["data_offset"] + 4:
            cnt = cx.r.unpack("I", zh["data_offset"], "zoom count")[0]
            if cnt != len(recs):
                P.append("%s: record count field is %d, the level holds %d records"
                         % (nm, cnt, len(recs)))
        ordered = True
        prev = None
        shown = 0
        covered = {}
        for rec in recs:
            c, s, e, valid, mn, mx, sm, sq = rec
            w = "%s record %d:[%d,%d)" % (nm, c, s, e)
            if not s < e:
                P.append("%s: empty or reversed range" % w)
            elif e - s > zh["reduction"]:
                P.append("%s: spans %d bases, more than the reduction level" % (w, e - s))
            if sizes is not None and (c not in sizes or e > sizes[c]):
                P.append("%s: outside the chromosome (%s)" % (w, sizes.get(c, "unknown id")))
            if prev is not None and (c, s) < (prev[0], prev[1]):
                P.append("%s: records not sorted (follows %d:[%d,%d))" % (w, prev[0], prev[1], prev[2]))
                ordered = False
            elif prev is not None and c == prev[0] and s < prev[2]:
                P.append("%s: overlaps the previous record %d:[%d,%d)" % (w, prev[0], prev[1], prev[2]))
                ordered = False
            prev = rec
            if segs is None or not s < e:
                continue
            lst = segs.get(c) or []
            if segs.get(c, []) is None:
                continue
            bases, dmn, dmx, dsm, dsq, dabs, _ = _range_stats(lst, starts.get(c, []), s, e)
            covered[c] = covered.get(c, 0) + bases
            bad = []
            if valid != bases:
                bad.append("validCount %d, data cover %d bases" % (valid, bases))
            if bases:
                if not _close(mn, _f32(dmn), tol):
                    bad.append("minVal %r, data %r" % (mn, dmn))
                if not _close(mx, _f32(dmx), tol):
                    bad.append("maxVal %r, data %r" % (mx, dmx))
                if not _close(sm, _f32(dsm), tol, dabs):
                    bad.append("sumData %r, data %r" % (sm, dsm))
                if not _close(sq, _f32(dsq), tol, dsq):
                    bad.append("sumSquares %r, data %r" % (sq, dsq))
            else:
                bad.append("covers no data")
            if bad and shown < 10:
                P.append("%s: %s" % (w, "; ".join(bad)))
                shown += 1
            elif bad and shown == 10:
                P.append("%s: further statistic mismatches suppressed" % nm)
                shown += 1
        if segs is not None and ordered:
            for c, lst in sorted(segs.items()):
                if lst is None:
                    continue
                total = sum(e - s for s, e, _ in lst)
                if covered.get(c, 0) != total:
                    P.append("%s: chromosome %d has %d covered bases, the records cover %d of them"
                             % (nm, c, total, covered.get(c, 0)))
    return P


# --------------------------------------------------------------------------
# check
# --------------------------------------------------------------------------

_FAMILY_FUNCS = dict(header=_check_header, chromtree=_check_chromtree, index=_check_index,
                     blocks=_check_blocks, summary=_check_summary, zooms=_check_zooms,
                     fields=_check_fields)


def check(data, only=None, *, sorted_chrom_keys=True, strict_items_per_slot=None,
          summary_tol=1e-6, zoom_tol=1e-5):
    """Well-formedness judgement.  Returns human-readable problems, each
    prefixed by its check family; an empty list means well formed.

    only: None (all of FAMILIES) or a set of names among FAMILIES + 'fields'.
    sorted_chrom_keys: require byte-wise increasing keys in the chromosome tree.
    strict_items_per_slot: None = enforce the itemsPerSlot bound on blocks
    unless the index header says 1 (kent's convention, see _ips_bound);
    True = always; False = never.
    summary_tol / zoom_tol: relative tolerances for the total summary (f64) and
    the zoom records (f32), measured against max(|expected|, sum of |terms|)."""
    fams = list(FAMILIES) if only is None else \
        [f for f in FAMILIES + EXTRA_FAMILIES if f in set(only)]
    if only is not None:
        unknown = set(only) - set(FAMILIES + EXTRA_FAMILIES)
        if unknown:
            raise ValueError("unknown check families: %s" % sorted(unknown))
    try:
        cx = _Ctx(data, sorted_chrom_keys, strict_items_per_slot, summary_tol, zoom_tol)
    except BBIFormatError as x:
        return ["[header] %s" % x]
    out = []
    for f in fams:
        try:
            ps = _FAMILY_FUNCS[f](cx)
        except BBIFormatError as x:
            ps = [str(x)]
        out.extend("[%s] %s" % (f, p) for p in ps)
    return out


# --------------------------------------------------------------------------
# encoder
# --------------------------------------------------------------------------

LAYOUTS = ("level_order", "depth_first", "reversed", "index_before_data")


def _bound(spans):
    lo = min((s[0], s[1]) for s in spans)
    hi = max((s[2], s[3]) for s in spans)
    return (lo[0], lo[1], hi[0], hi[1])


def _chunks(n, k):
    return [list(range(i, min(i + k, n))) for i in range(0, n, k)]


def _build_levels(nleaf, fanout):
    """levels[0] = leaf nodes (lists of leaf-item indexes); levels[k] = nodes
    listing node indexes of level k-1; the last level holds the single root."""
    if nleaf == 0:
        return [[[]]]
    levels = [_chunks(nleaf, fanout)]
    while len(levels[-1]) > 1:
        levels.append(_chunks(len(levels[-1]), fanout))
    return levels


def _node_order(levels, layout):
    top = len(levels) - 1
    if layout in ("level_order", "index_before_data"):
        return [(L, i) for L in range(top, -1, -1) for i in range(len(levels[L]))]
    if layout == "reversed":
        return [(top, 0)] + [(L, i) for L in range(0, top) for i in range(len(levels[L]))]
    if layout == "depth_first":
        out = []

        def rec(L, i):
            out.append((L, i))
            if L > 0:
                for c in levels[L][i]:
                    rec(L - 1, c)
        rec(top, 0)
        return out
    raise ValueError("unknown rtree_layout %r (one of %s)" % (layout, LAYOUTS))


def _emit_indexed(e, base, blocks, spans, fanout, layout, ips, prefix_fmt, prefix_val, pad):
    """Lay out `prefix, blocks..., R tree` (or the R tree first for
    'index_before_data') starting at file offset `base`.
    Returns (bytes, data_offset, index_offset)."""
    if fanout < 2:
        raise ValueError("rtree_block_size must be at least 2")
    levels = _build_levels(len(blocks), fanout)
    top = len(levels) - 1
    order = _node_order(levels, layout)

    def nsize(L, i):
        k = fanout if pad else len(levels[L][i])
        return 4 + k * (32 if L == 0 else 24)

    index_size = 48 + sum(nsize(L, i) for L, i in order)
    prefix = struct.pack(e + prefix_fmt, prefix_val)
    data_size = len(prefix) + sum(len(b) for b in blocks)
    if layout == "index_before_data":
        index_off, data_off = base, base + index_size
    else:
        data_off, index_off = base, base + data_size
    boffs, p = [], data_off + len(prefix)
    for b in blocks:
        boffs.append(p)
        p += len(b)
    end_of_data = p
    noff, p = {}, index_off + 48
    for key in order:
        noff[key] = p
        p += nsize(*key)
    nspan = {}
    for L in range(top + 1):
        for i, kids in enumerate(levels[L]):
            if kids:
                nspan[(L, i)] = _bound([spans[k] for k in kids] if L == 0 else
                                       [nspan[(L - 1, k)] for k in kids])
    root_span = nspan.get((top, 0), (0, 0, 0, 0))
    idx = io.BytesIO()
    idx.write(struct.pack(e + "IIQIIIIQII", CIR_MAGIC, fanout, len(blocks), *root_span,
                          end_of_data, ips, 0))
    for L, i in order:
        kids = levels[L][i]
        body = struct.pack(e + "BBH", 1 if L == 0 else 0, 0, len(kids))
        for k in kids:
            if L == 0:
                body += struct.pack(e + "IIIIQQ", *spans[k], boffs[k], len(blocks[k]))
            else:
                body += struct.pack(e + "IIIIQ", *nspan[(L - 1, k)], noff[(L - 1, k)])
        body += b"\0" * (nsize(L, i) - len(body))
        assert idx.tell() + index_off == noff[(L, i)]
        idx.write(body)
    dat = prefix + b"".join(blocks)
    if layout == "index_before_data":
        return idx.getvalue() + dat, data_off, index_off
    return dat + idx.getvalue(), data_off, index_off


def _emit_bpt(e, base, items, block_size, key_size, pad):
    """items: [(key bytes, id, size)] already in leaf order.  Level-order B+ tree."""
    if block_size < 1:
        raise ValueError("chrom_block_size must be at least 1")
    if block_size == 1 and len(items) > 1:
        # fan-out 1 cannot branch: a chain of one-child nodes would never end
        raise ValueError("chrom_block_size 1 can only hold a single chromosome")
    levels = _build_levels(len(items), block_size)
    top = len(levels) - 1
    isz = key_size + 8

    def nsize(L, i):
        return 4 + (block_size if pad else len(levels[L][i])) * isz

    noff, p = {}, base + 32
    for L in range(top, -1, -1):
        for i in range(len(levels[L])):
            noff[(L, i)] = p
            p += nsize(L, i)
    first = {}
    for L in range(top + 1):
        for i, kids in enumerate(levels[L]):
            if kids:
                first[(L, i)] = items[kids[0]][0] if L == 0 else first[(L - 1, kids[0])]
    out = io.BytesIO()
    out.write(struct.pack(e + "IIIIQQ", BPT_MAGIC, block_size, key_size, 8, len(items), 0))
    for L in range(top, -1, -1):
        for i, kids in enumerate(levels[L]):
            body = struct.pack(e + "BBH", 1 if L == 0 else 0, 0, len(kids))
            for k in kids:
                if L == 0:
                    key, cid, size = items[k]
                    body += key.ljust(key_size, b"\0") + struct.pack(e + "II", cid, size)
                else:
                    body += first[(L - 1, k)].ljust(key_size, b"\0") + \
                        struct.pack(e + "Q", noff[(L - 1, k)])
            body += b"\0" * (nsize(L, i) - len(body))
            out.write(body)
    return out.getvalue()


def _val_bits(v):
    return int(float_to_bits(v), 16)


def _wig_section_bytes(e, cid, sec):
    typ = sec["type"]
    if typ == 1:
        items = sec["items"]
        start = items[0][0] if items else 0
        end = max((it[1] for it in items), default=0)
        hdr = (cid, start, end, 0, 0, 1, 0, len(items))
        body = b"".join(struct.pack(e + "III", s, en, _val_bits(v)) for s, en, v in items)
        ivs = [(s, en, float_to_bits(v)) for s, en, v in items]
    elif typ == 2:
        items, span = sec["items"], sec["span"]
        start = items[0][0] if items else 0
        end = max((it[0] + span for it in items), default=0)
        hdr = (cid, start, end, 0, span, 2, 0, len(items))
        body = b"".join(struct.pack(e + "II", s, _val_bits(v)) for s, v in items)
        ivs = [(s, s + span, float_to_bits(v)) for s, v in items]
    elif typ == 3:
        vals, start, step, span = sec["values"], sec["start"], sec["step"], sec["span"]
        end = start + (len(vals) - 1) * step + span if vals else start
        hdr = (cid, start, end, step, span, 3, 0, len(vals))
        body = b"".join(struct.pack(e + "I", _val_bits(v)) for v in vals)
        ivs = [(start + i * step, start + i * step + span, float_to_bits(v))
               for i, v in enumerate(vals)]
    else:
        raise ValueError("bigWig section type must be 1, 2 or 3")
    return struct.pack(e + "IIIIIBBH", *hdr) + body, ivs


def spec_content(kind, spec):
    """The content a spec describes, in the shape decode() reports it:
    chrom_id -> [[start, end, bits_hex]] (bigWig) / [[start, end, rest_hex]]."""
    _, _, cid_of = _spec_chroms(spec)
    out = {}
    for sec in spec.get("sections", []):
        cid = cid_of(sec["chrom"])
        if kind == "bigwig":
            _, ivs = _wig_section_bytes("<", cid, sec)
            out.setdefault(cid, []).extend([s, en, b] for s, en, b in ivs)
        else:
            for it in sec["items"]:
                rest = it[2] if len(it) > 2 else ""
                rb = rest if isinstance(rest, bytes) else rest.encode("latin-1")
                out.setdefault(cid, []).append([it[0], it[1], rb.hex()])
    return out


def _spec_chroms(spec):
    chroms = [(c[0], c[1]) for c in spec["chroms"]]
    keys = [nm.encode("latin-1") if isinstance(nm, str) else bytes(nm) for nm, _ in chroms]
    if spec.get("ids") is not None:
        ids = list(spec["ids"])
    else:                                  # id = rank of the name in byte order
        rank = {k: i for i, k in enumerate(sorted(set(keys)))}
        ids = [rank[k] for k in keys]
    items = sorted(zip(keys, ids, [sz for _, sz in chroms]))
    by_name = {k.decode("latin-1"): i for k, i in zip(keys, ids)}

    def cid_of(x):
        return by_name[x] if isinstance(x, str) else int(x)
    return items, by_name, cid_of


def _encode(kind, spec):
    e = {"little": "<", "big": ">"}[spec.get("endian", "little")]
    version = spec.get("version", 4)
    compress = bool(spec.get("compress", True))
    layout = spec.get("rtree_layout", "level_order")
    fanout = spec.get("rtree_block_size", 256)
    pad = bool(spec.get("pad_nodes", False))
    items, _, cid_of = _spec_chroms(spec)
    key_size = spec.get("key_size") or max([len(k) for k, _, _ in items] + [1])
    # ---- main data blocks
    raw, spans, per_chrom, n_items = [], [], {}, 0
    for sec in spec.get("sections", []):
        cid = cid_of(sec["chrom"])
        if kind == "bigwig":
            buf, ivs = _wig_section_bytes(e, cid, sec)
            per_chrom.setdefault(cid, []).extend((s, en, bits_to_float(b)) for s, en, b in ivs)
            rng = [(s, en) for s, en, _ in ivs]
        else:
            buf = b""
            rng = []
            for it in sec["items"]:
                rest = it[2] if len(it) > 2 else ""
                rb = rest if isinstance(rest, bytes) else rest.encode("latin-1")
                c = cid_of(it[3]) if len(it) > 3 else cid      # per-item override (tests)
                buf += struct.pack(e + "III", c, it[0], it[1]) + rb + b"\0"
                rng.append((it[0], it[1]))
                per_chrom.setdefault(c, []).append((it[0], it[1]))
        n_items += len(rng)
        raw.append(buf)
        if sec.get("leaf_span"):                       # override (negative tests)
            spans.append(tuple(sec["leaf_span"]))
        elif rng:
            spans.append((cid, min(s for s, _ in rng), cid, max(en for _, en in rng)))
        else:
            spans.append((cid, 0, cid, 0))
    ips = spec.get("items_per_slot")
    if ips is None:
        ips = max([1024] + [len(s.get("items", s.get("values", []))) for s in spec.get("sections", [])])
    # ---- zoom blocks
    zraw = []
    for z in spec.get("zooms", []):
        zips = z.get("items_per_slot") or ips
        groups, cur = [], []
        for rec in z["records"]:
            c = cid_of(rec[0])
            if cur and (len(cur) >= zips or (z.get("split_on_chrom", True) and cur[-1][0] != c)):
                groups.append(cur)
                cur = []
            cur.append((c,) + tuple(rec[1:]))
        if cur:
            groups.append(cur)
        zb, zs = [], []
        for g in groups:
            zb.append(b"".join(struct.pack(e + "IIIIIIII", c, s, en, v, _val_bits(mn),
                                           _val_bits(mx), _val_bits(sm), _val_bits(sq))
                               for c, s, en, v, mn, mx, sm, sq in g))
            zs.append(_bound([(c, s, c, en) for c, s, en, *_ in g]))
        zraw.append((z, zips, zb, zs, sum(len(g) for g in groups)))
    if compress:
        ubs = max([len(b) for b in raw] + [len(b) for z in zraw for b in z[2]] + [1])
        ubs = spec.get("uncompress_buf_size", ubs)
        pack = zlib.compress
    else:
        ubs = 0

        def pack(b):
            return b
    blocks = [pack(b) for b in raw]
    # ---- summary
    summary = None
    if version >= 2:
        summary = spec.get("summary")
        if summary is None:
            if kind == "bigwig":
                segs = {c: [it for it in lst if it[1] > it[0]] for c, lst in per_chrom.items()}
            else:
                segs = {}
                for c, lst in per_chrom.items():
                    delta = {}
                    for s, en in lst:
                        if en > s:
                            delta[s] = delta.get(s, 0) + 1
                            delta[en] = delta.get(en, 0) - 1
                    out, depth, prev = [], 0, None
                    for p in sorted(delta):
                        if depth > 0 and p > prev:
                            out.append((prev, p, float(depth)))
                        depth += delta[p]
                        prev = p
                    segs[c] = out
            bases, mn, mx, sm, sq, _, _ = _stats([s for c in sorted(segs) for s in segs[c]])
            summary = dict(bases_covered=bases, min=mn or 0.0, max=mx or 0.0, sum=sm, sum_squares=sq)
    # ---- assemble
    nz = len(zraw)
    out = bytearray(64 + 24 * nz)
    aso = 0
    if kind == "bigbed" and spec.get("autosql") is not None:
        aso = len(out)
        out += spec["autosql"].encode("latin-1") + b"\0"
    tso = 0
    if summary is not None:
        tso = len(out)
        out += struct.pack(e + "Qdddd", summary["bases_covered"], summary["min"], summary["max"],
                           summary["sum"], summary["sum_squares"])
    cto = len(out)
    out += _emit_bpt(e, cto, items, spec.get("chrom_block_size", 256), key_size, pad)
    data_count = spec.get("data_count", len(blocks) if kind == "bigwig" else n_items)
    # `gap_before_data` = N: the data, the indexes and everything after them sit N bytes further into the file (a hole of N zero
    # bytes after the chromosome tree; offsets ≥ 2^32 without materialising 4 GiB — the result is then a list of segments)
    shift = int(spec.get("gap_before_data", 0))
    cut = len(out)
    seg, fdo, fio = _emit_indexed(e, len(out) + shift, blocks, spans, fanout, layout, ips,
                                  "Q", data_count, pad)
    out += seg
    zh = []
    for z, zips, zb, zs, nrec in zraw:
        seg, zdo, zio = _emit_indexed(e, len(out) + shift, [pack(b) for b in zb], zs, fanout, layout,
                                      zips, "I", nrec, pad)
        out += seg
        zh.append((z["reduction"], 0, zdo, zio))
    magic = BIGWIG_MAGIC if kind == "bigwig" else BIGBED_MAGIC
    out += struct.pack(e + "I", magic)
    if kind == "bigwig":
        fc = dfc = 0
    else:
        first = next((it for s in spec.get("sections", []) for it in s["items"]), None)
        rest = (first[2] if first is not None and len(first) > 2 else "")
        if isinstance(rest, bytes):
            rest = rest.decode("latin-1")
        fc = spec.get("field_count", 3 + (len(rest.split("\t")) if rest else 0))
        dfc = spec.get("defined_field_count", min(fc, 12))
    struct.pack_into(e + "IHHQQQHHQQIQ", out, 0, magic, version, nz, cto, fdo, fio, fc, dfc,
                     aso, tso, ubs, 0)
    for i, z in enumerate(zh):
        struct.pack_into(e + "IIQQ", out, 64 + 24 * i, *z)
    if shift:
        return [(0, bytes(out[:cut])), (cut + shift, bytes(out[cut:]))]
    return bytes(out)


def encode_bigwig(spec):
    """Independent bigWig writer; see the module docstring / README of the spec:
    endian, version, compress, chroms [[name,size]], ids, chrom_block_size,
    key_size, sections [{chrom, type, ...}], rtree_block_size, rtree_layout,
    items_per_slot, zooms [{reduction, records, items_per_slot}], summary,
    pad_nodes.  `chrom` may be an id or a name."""
    return _encode("bigwig", spec)


def encode_bigbed(spec):
    """Independent bigBed writer (sections [{chrom, items [[s,e,rest]]}],
    autosql, field_count, defined_field_count; otherwise as encode_bigwig)."""
    return _encode("bigbed", spec)


# --------------------------------------------------------------------------
# self test
# --------------------------------------------------------------------------

def _demo_wig_spec(**kw):
    spec = dict(
        endian="little", version=4, compress=True,
        chroms=[["chr1", 1000], ["chr10", 2000], ["chr2", 500]],
        chrom_block_size=2, rtree_block_size=2, rtree_layout="level_order", items_per_slot=8,
        sections=[
            dict(chrom=0, type=1, items=[[0, 10, 1.5], [10, 30, 2.0], [100, 105, -3.0]]),
            dict(chrom=0, type=2, span=5, items=[[200, 0.5], [210, 0.25], [300, 4.0]]),
            dict(chrom=0, type=3, start=400, step=10, span=4, values=[1.0, 2.0, 3.0, "40800000"]),
            dict(chrom=1, type=1, items=[[5, 50, 7.0]]),
            dict(chrom=1, type=3, start=100, step=1, span=1, values=[0.125] * 6),
            dict(chrom=2, type=1, items=[[0, 500, 0.25]]),
        ])
    spec.update(kw)
    if "zooms" not in spec:
        spec["zooms"] = _zooms_for("bigwig", spec, [16, 64])
    return spec


def _demo_bed_spec(**kw):
    spec = dict(
        endian="little", version=4, compress=True,
        chroms=[["chr1", 1000], ["chr10", 2000], ["chr2", 500]],
        chrom_block_size=2, rtree_block_size=2, rtree_layout="level_order", items_per_slot=8,
        autosql="table t\n\"demo\"\n(\nstring chrom; \"c\"\nuint s; \"s\"\nuint e; \"e\"\nstring name; \"n\"\n)\n",
        sections=[
            dict(chrom=0, items=[[0, 900, "long"], [5, 10, "a"], [5, 20, "b"]]),
            dict(chrom=0, items=[[30, 40, "c"], [1000, 1000, "atEnd"]]),
            dict(chrom=1, items=[[7, 8, "d"]]),
            dict(chrom=2, items=[[0, 500, "e"], [100, 100, "zero"], [499, 500, "f"]]),
        ])
    spec.update(kw)
    if "zooms" not in spec:
        spec["zooms"] = _zooms_for("bigbed", spec, [16, 64])
    return spec


def _zooms_for(kind, spec, reductions, items_per_slot=3):
    """Consistent zoom levels for a spec: fixed windows of `reduction` bases,
    one record per window that covers data."""
    content = spec_content(kind, spec)
    segs = {}
    for c, lst in content.items():
        if kind == "bigwig":
            segs[c] = sorted((s, e, bits_to_float(b)) for s, e, b in lst if e > s)
        else:
            delta = {}
            for s, e, _ in lst:
                if e > s:
                    delta[s] = delta.get(s, 0) + 1
                    delta[e] = delta.get(e, 0) - 1
            out, depth, prev = [], 0, None
            for p in sorted(delta):
                if depth > 0 and p > prev:
                    out.append((prev, p, float(depth)))
                depth += delta[p]
                prev = p
            segs[c] = out
    zooms = []
    for red in reductions:
        recs = []
        for c in sorted(segs):
            lst = segs[c]
            if not lst:
                continue
            starts = [s for s, _, _ in lst]
            w = (lst[0][0] // red) * red
            hi = max(e for _, e, _ in lst)
            while w < hi:
                bases, mn, mx, sm, sq, _, _ = _range_stats(lst, starts, w, w + red)
                if bases:
                    recs.append([c, w, min(w + red, hi), bases, mn, mx, sm, sq])
                w += red
        zooms.append(dict(reduction=red, records=recs, items_per_slot=items_per_slot))
    return zooms


def _expect(problems, *needles):
    txt = "\n".join(problems)
    if not problems:
        raise AssertionError("check() accepted a file it must reject (wanted %r)" % (needles,))
    for n in needles:
        if n not in txt:
            raise AssertionError("check() problems lack %r:\n%s" % (n, txt))


def _selftest(verbose=False):
    n = 0
    # ---- positives: encoder output is accepted and decodes to the spec
    for kind, mk, enc in (("bigwig", _demo_wig_spec, encode_bigwig),
                          ("bigbed", _demo_bed_spec, encode_bigbed)):
        for endian in ("little", "big"):
            for compress in (True, False):
                for layout in LAYOUTS:
                    for version in (1, 2, 3, 4):
                        for cbs, fan in ((2, 2), (3, 3), (256, 256), (2, 256), (256, 2)):
                            spec = mk(endian=endian, compress=compress, rtree_layout=layout,
                                      version=version, chrom_block_size=cbs, rtree_block_size=fan)
                            data = enc(spec)
                            ps = check(data)
                            assert not ps, (kind, endian, compress, layout, version, cbs, fan, ps)
                            dec = decode(data)
                            key = "values" if kind == "bigwig" else "entries"
                            assert dec[key] == spec_content(kind, spec), (kind, "content")
                            assert dec["endian"] == endian and dec["version"] == version
                            assert (dec["summary"] is None) == (version == 1)
                            for z, zs in zip(dec["zooms"], spec["zooms"]):
                                got = [r[:4] + [_f32(x) for x in r[4:]] for r in z["records"]]
                                want = [r[:4] + [_f32(x) for x in r[4:]] for r in zs["records"]]
                                assert got == want, (kind, "zoom records")
                            n += 1
    # chrom_block_size 1 is only possible with a single chromosome
    one = dict(endian="big", version=3, compress=False, chroms=[["c", 50]], chrom_block_size=1,
               rtree_block_size=2, sections=[dict(chrom="c", type=3, start=0, step=5, span=5,
                                                  values=[1, 2, 3])])
    assert not check(encode_bigwig(one))
    n += 1

    # ---- negatives
    base = _demo_wig_spec(compress=False)
    good = encode_bigwig(base)
    h, r = _parse_header(good)
    # (1) an R-tree node whose recorded span does not contain a child
    t = _walk_rtree(r, h["full_index_offset"], "main index")
    root = t["nodes"][0]
    assert not root["is_leaf"], "demo spec must give a multi-level index"
    child = next(nd for nd in t["nodes"] if nd["span"] == tuple(root["items"][0][:4]))
    cend = max((it[2], it[3]) for it in child["items"])
    bad = bytearray(good)
    struct.pack_into("<I", bad, root["offset"] + 4 + 12, cend[1] - 1)     # endBase of item 0
    _expect(check(bytes(bad)), "[index]", "not contained in the span its parent records")
    _expect(check(bytes(bad), only={"index"}), "not contained")
    assert not check(bytes(bad), only={"summary", "chromtree"})
    # same in a zoom index
    zt = _walk_rtree(r, h["zoom_headers"][0]["index_offset"], "zoom 0 index")
    zroot = zt["nodes"][0]
    assert not zroot["is_leaf"]
    bad = bytearray(good)
    struct.pack_into("<I", bad, zroot["offset"] + 4 + 4, zroot["items"][0][1] + 1)  # startBase
    _expect(check(bytes(bad)), "zoom 0 index", "not contained")
    # header bounds not containing the root's items
    bad = bytearray(good)
    struct.pack_into("<I", bad, h["full_index_offset"] + 28, 1)            # endBase of bounds
    _expect(check(bytes(bad)), "not contained in the header bounds")
    # (2) a block holding items of two chromosomes / of the wrong chromosome
    bspec = _demo_bed_spec(compress=False)
    bspec["sections"][0]["items"][1] = [5, 10, "a", 1]
    _expect(check(encode_bigbed(bspec)), "[blocks]", "several chromosomes")
    bspec = _demo_bed_spec(compress=True)
    bspec["sections"][0]["items"][2] = [5, 20, "b", 2]
    _expect(check(encode_bigbed(bspec)), "several chromosomes")
    bad = bytearray(good)
    struct.pack_into("<I", bad, t["leaves"][0]["offset"], 1)               # section chromId
    _expect(check(bytes(bad)), "under a leaf span of chromosome 0")
    # (3) truncated files
    for cut in (len(good) - 1, len(good) - 10, len(good) // 2, 100, 64, 10, 3):
        _expect(check(good[:cut]))
        try:
            decode(good[:len(good) // 2])
            raise AssertionError("decode() accepted a truncated file")
        except BBIFormatError:
            pass
    # (4) bad trailing magic
    bad = bytearray(good)
    bad[-1] ^= 0xFF
    _expect(check(bytes(bad)), "[header]", "trailing magic")
    _expect(check(good + b"\0"), "trailing magic")
    # (5) overlapping / unsorted zoom records
    zs = _demo_wig_spec(compress=False)
    rec = list(zs["zooms"][0]["records"][1])
    rec[1] -= 3                                   # now starts inside the previous record
    zs["zooms"][0]["records"][1] = rec
    _expect(check(encode_bigwig(zs)), "[zooms]", "overlaps the previous record")
    zs = _demo_wig_spec()
    zs["zooms"][0]["records"][0], zs["zooms"][0]["records"][1] = \
        zs["zooms"][0]["records"][1], zs["zooms"][0]["records"][0]
    _expect(check(encode_bigwig(zs)), "records not sorted")
    zs = _demo_wig_spec()
    zs["zooms"][1]["records"][0][6] *= 1.01       # wrong sum
    _expect(check(encode_bigwig(zs)), "sumData")
    zs = _demo_wig_spec()
    del zs["zooms"][1]["records"][-1]             # data not under any record
    _expect(check(encode_bigwig(zs)), "the records cover")
    zs = _demo_bed_spec()
    zs["zooms"][0]["records"][0][3] += 1          # wrong validCount
    _expect(check(encode_bigbed(zs)), "validCount")
    # (6) wrong total summary
    for k, v in (("sum", 1.0), ("bases_covered", 7), ("min", -99.0), ("max", 99.0),
                 ("sum_squares", 0.5)):
        d = decode(good)["summary"]
        s = {x: d[x] for x in ("bases_covered", "min", "max", "sum", "sum_squares")}
        s[k] = v
        _expect(check(encode_bigwig(_demo_wig_spec(summary=s))), "[summary]")
        _expect(check(encode_bigbed(_demo_bed_spec(summary=s))), "[summary]")
    # (7) others: junk in a zlib stream, raw/compressed flag mismatch, bad
    # reserved, dataCount, unsorted chromosome keys, overlapping items
    comp = encode_bigwig(_demo_wig_spec(compress=True))
    ch, cr = _parse_header(comp)
    leaf = _walk_rtree(cr, ch["full_index_offset"], "main index")["leaves"][1]
    bad = bytearray(comp)
    bad[leaf["offset"] + leaf["size"] - 1] ^= 0x55
    _expect(check(bytes(bad)), "not a valid zlib stream")
    bad = bytearray(comp)
    struct.pack_into("<I", bad, 52, 0)                                     # claims raw blocks
    _expect(check(bytes(bad)), "[blocks]")
    bad = bytearray(good)
    struct.pack_into("<I", bad, 52, 4096)                                  # claims zlib blocks
    _expect(check(bytes(bad)), "not a valid zlib stream")
    bad = bytearray(comp)
    struct.pack_into("<I", bad, 52, 30)                                    # buffer too small
    _expect(check(bytes(bad)), "more than uncompressBufSize")
    _expect(check(encode_bigwig(_demo_wig_spec(data_count=99))), "dataCount")
    _expect(check(encode_bigwig(_demo_wig_spec(items_per_slot=2))), "exceed itemsPerSlot")
    _expect(check(encode_bigwig(_demo_wig_spec(version=5))), "version 5")
    bad = bytearray(good)
    bad[h["full_index_offset"] + 44] = 1                                   # reserved
    _expect(check(bytes(bad)), "reserved")
    us = _demo_wig_spec(ids=[0, 2, 1])
    assert not check(encode_bigwig(us))          # ids need not follow name order
    us = _demo_wig_spec()
    us["sections"][0]["items"][1] = [5, 30, 2.0]
    _expect(check(encode_bigwig(us)), "sorted and disjoint")
    us = _demo_wig_spec()
    us["sections"][5]["items"][0] = [0, 501, 0.25]
    _expect(check(encode_bigwig(us)), "outside chromosome 2 of size 500")
    us = _demo_bed_spec()
    us["sections"][1]["items"][0], us["sections"][1]["items"][1] = \
        us["sections"][1]["items"][1], us["sections"][1]["items"][0]
    _expect(check(encode_bigbed(us)), "sorted by start")
    # unsorted keys in the chromosome tree (patch two leaf keys)
    bt = _walk_bpt(r, h["chrom_tree_offset"])
    lf = next(nd for nd in bt["nodes"] if nd["is_leaf"] and nd["count"] >= 2)
    ks = bt["key_size"]
    bad = bytearray(good)
    a, b = lf["offset"] + 4, lf["offset"] + 4 + ks + 8
    bad[a:a + ks], bad[b:b + ks] = good[b:b + ks], good[a:a + ks]
    _expect(check(bytes(bad), only={"chromtree"}), "[chromtree]", "increasing")
    assert not check(bytes(bad), only={"chromtree"}, sorted_chrom_keys=False)
    # queries
    dec = decode(good)
    assert query(dec, "chr1", 5, 12) == [[5, 10, "3fc00000"], [10, 12, "40000000"]]
    assert query(dec, "nope", 0, 10) == []
    bdec = decode(encode_bigbed(_demo_bed_spec()))
    assert [x[2] for x in query(bdec, "chr1", 10, 30)] == [b"long".hex(), b"b".hex()]
    assert [x[2] for x in query_touching(bdec, "chr1", 10, 30)] == \
        [b"long".hex(), b"a".hex(), b"b".hex(), b"c".hex()]
    if verbose:
        print("selftest ok: %d positive encodings, negatives rejected" % n)
    return True


# --------------------------------------------------------------------------
# CLI
# --------------------------------------------------------------------------

def main(argv):
    if len(argv) < 2 or argv[1] not in ("check", "dump", "inflate", "selftest"):
        sys.stderr.write(__doc__)
        return 2
    cmd, args = argv[1], argv[2:]
    if cmd == "selftest":
        _selftest(verbose=True)
        return 0
    if cmd == "check":
        only, sorted_keys, strict = None, True, None
        files = []
        it = iter(args)
        for a in it:
            if a == "--only":
                only = set(next(it).split(","))
            elif a == "--unsorted-chrom-keys":
                sorted_keys = False
            elif a == "--strict-items-per-slot":
                strict = True
            else:
                files.append(a)
        rc = 0
        for f in files:
            with open(f, "rb") as fh:
                ps = check(fh.read(), only, sorted_chrom_keys=sorted_keys,
                           strict_items_per_slot=strict)
            if ps:
                rc = 1
                print("%s: %d problem(s)" % (f, len(ps)))
                for p in ps:
                    print("  " + p)
            else:
                print("%s: ok" % f)
        return rc
    if len(args) != 1:
        sys.stderr.write("usage: bbi_codec.py %s FILE\n" % cmd)
        return 2
    with open(args[0], "rb") as fh:
        data = fh.read()
    try:
        dec = decode(data)
    except BBIFormatError as x:
        sys.stderr.write("%s: %s\n" % (args[0], x))
        return 1
    if cmd == "dump":
        json.dump(dec, sys.stdout, indent=1)
        sys.stdout.write("\n")
    else:
        for off, size, hx in dec["inflate_table"]:
            print("INFLATE %d %d %s" % (off, size, hx))
    return 0


if __name__ == "__main__":
    try:
        sys.exit(main(sys.argv))
    except BrokenPipeError:
        sys.exit(1)
