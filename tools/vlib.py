"""Common machinery of /verif/check: builds, running both sides of the line protocol, verdicts, evidence.

Nothing here judges bigtools by itself; the per-property modules in tools/props/ supply generators,
comparison rules and the property oracle. See DESIGN.md section 3 and DESIGN-framework.md.
"""
import fcntl
import hashlib
import json
import os
import re
import shutil
import subprocess
import sys
import time

VERIF = os.path.dirname(os.path.dirname(os.path.abspath(__file__)))
REPO = os.environ.get("VERIF_REPO", "/repo")
BUILD = os.path.join(VERIF, "build")
LEAN = os.path.join(VERIF, "lean")
HARNESS_BIN = os.path.join(BUILD, "harness-target", "release", "bbharness")
MODEL_BIN = os.path.join(LEAN, ".lake", "build", "bin", "bbmodel")
REPO_TARGET = os.path.join(BUILD, "repo-target")
AXIOM_WHITELIST = {"propext", "Classical.choice", "Quot.sound"}
CFG = "--cfg bigtools_verif"

os.makedirs(BUILD, exist_ok=True)


class Prng:
    """SplitMix64: every random choice of a run derives from VERIF_SEED."""

    def __init__(self, seed):
        self.s = seed & 0xFFFFFFFFFFFFFFFF

    def next(self):
        self.s = (self.s + 0x9E3779B97F4A7C15) & 0xFFFFFFFFFFFFFFFF
        z = self.s
        z = ((z ^ (z >> 30)) * 0xBF58476D1CE4E5B9) & 0xFFFFFFFFFFFFFFFF
        z = ((z ^ (z >> 27)) * 0x94D049BB133111EB) & 0xFFFFFFFFFFFFFFFF
        return z ^ (z >> 31)

    def below(self, n):
        return self.next() % n if n > 0 else 0

    def range(self, a, b):
        """integer in [a, b]"""
        return a + self.below(b - a + 1)

    def choice(self, xs):
        return xs[self.below(len(xs))]

    def chance(self, num, den):
        return self.below(den) < num

    def fork(self, tag):
        h = hashlib.sha256(f"{self.s}:{tag}".encode()).digest()
        return Prng(int.from_bytes(h[:8], "little"))


def hexs(b):
    if isinstance(b, str):
        b = b.encode()
    return b.hex() if b else "-"


def unhex(s):
    return b"" if s == "-" else bytes.fromhex(s)


def f32bits(x):
    import struct
    return struct.pack(">f", x).hex()


def bits_f32(h):
    import struct
    return struct.unpack(">f", bytes.fromhex(h))[0]


# ------------------------------------------------------------------------------------------------
# builds (serialised by a lock so that checks may be started concurrently)

class BuildLock:
    def __enter__(self):
        self.f = open(os.path.join(BUILD, ".lock"), "w")
        fcntl.flock(self.f, fcntl.LOCK_EX)
        return self

    def __exit__(self, *a):
        fcntl.flock(self.f, fcntl.LOCK_UN)
        self.f.close()


def run(cmd, cwd=None, env=None, timeout=None, input=None):
    e = dict(os.environ)
    e["CARGO_NET_OFFLINE"] = "true"
    if env:
        e.update(env)
    p = subprocess.run(cmd, cwd=cwd, env=e, stdout=subprocess.PIPE, stderr=subprocess.STDOUT,
                       timeout=timeout, input=input, text=True, errors="replace")
    return p.returncode, p.stdout


def build_harness():
    """(Re)builds the harness against /repo's current working tree. Returns (ok, log)."""
    with BuildLock():
        lock_src = os.path.join(REPO, "Cargo.lock")
        lock_dst = os.path.join(VERIF, "harness", "Cargo.lock")
        if os.path.exists(lock_src) and not os.path.exists(lock_dst):
            shutil.copy(lock_src, lock_dst)
        # the path dependency follows VERIF_REPO (default /repo), so that a background soak can run against a snapshot of
        # /repo's HEAD (vp run --with-repo: VERIF_REPO=$VP_RUN_REPO) while seeded changes are tried on /repo itself
        toml = os.path.join(VERIF, "harness", "Cargo.toml")
        cur = open(toml).read()
        want = re.sub(r'bigtools = \{ path = "[^"]*"', 'bigtools = { path = "%s"' % os.path.join(REPO, "bigtools"), cur)
        if want != cur:
            open(toml, "w").write(want)
        rc, out = run(["cargo", "build", "--release", "--offline"], cwd=os.path.join(VERIF, "harness"),
                      env={"CARGO_TARGET_DIR": os.path.join(BUILD, "harness-target"), "RUSTFLAGS": CFG})
        return rc == 0, out


def build_repo_bins(packages=("bigtools",)):
    """Builds the repository's own binaries (and optionally pybigtools) into /verif/build/repo-target."""
    with BuildLock():
        ok = True
        log = ""
        for p in packages:
            rc, out = run(["cargo", "build", "--release", "--offline", "-p", p], cwd=REPO,
                          env={"CARGO_TARGET_DIR": REPO_TARGET, "RUSTFLAGS": CFG})
            ok = ok and rc == 0
            log += out
        return ok, log


def repo_bin(name):
    return os.path.join(REPO_TARGET, "release", name)


def lake_build(targets):
    with BuildLock():
        rc, out = run(["lake", "build"] + list(targets), cwd=LEAN)
        return rc == 0, out


FORBIDDEN = re.compile(r"\b(sorry|admit|native_decide|bv_decide|implemented_by)\b|^axiom |unsafe |maxHeartbeats 0")


def strip_comments(src):
    """Removes /- … -/ (nested) and -- comments."""
    out = []
    i, depth, n = 0, 0, len(src)
    while i < n:
        if src.startswith("/-", i):
            depth += 1
            i += 2
        elif depth and src.startswith("-/", i):
            depth -= 1
            i += 2
        elif depth:
            i += 1
        elif src.startswith("--", i):
            while i < n and src[i] != "\n":
                i += 1
        else:
            out.append(src[i])
            i += 1
    return "".join(out)


def lean_imports_closure(module):
    """Project-local modules a module (transitively) imports."""
    seen, todo = [], [module]
    while todo:
        m = todo.pop()
        if m in seen:
            continue
        path = os.path.join(LEAN, m.replace(".", "/") + ".lean")
        if not os.path.exists(path):
            continue
        seen.append(m)
        for line in open(path, encoding="utf-8"):
            mm = re.match(r"\s*import\s+(BigtoolsModel[\w.]*)", line)
            if mm:
                todo.append(mm.group(1))
    return seen


def prop_theorems(pid):
    path = os.path.join(LEAN, "BigtoolsModel", "Props", f"{pid}.lean")
    src = strip_comments(open(path, encoding="utf-8").read())
    out, stack = [], []
    for line in src.splitlines():
        m = re.match(r"^namespace\s+([\w.]+)", line)
        if m:
            stack.append(m.group(1))
            continue
        m = re.match(r"^end\s+([\w.]+)", line)
        if m and stack and stack[-1] == m.group(1):
            stack.pop()
            continue
        m = re.match(r"^theorem\s+([\w.']+)", line)
        if m:
            out.append(".".join(stack + [m.group(1)]))
    return out


def proof_status(pid, thorough=False):
    """Builds Props/<pid>, audits axioms, greps for forbidden constructs.
    Returns dict(ok, obligations, discharged, theorems, problems, checker_cmd, log)."""
    res = {"ok": False, "obligations": 0, "discharged": 0, "theorems": [], "problems": [], "partial": []}
    mod = f"BigtoolsModel.Props.{pid}"
    res["checker_cmd"] = (f"cd /verif/lean && lake build {mod} && lake env lean build/Audit_{pid}.lean "
                          f"(#print axioms of every theorem of Props/{pid}.lean; whitelist propext, Classical.choice, Quot.sound)")
    ok, log = lake_build([mod, "bbmodel"])
    res["log"] = log[-4000:]
    try:
        thms = prop_theorems(pid)
    except FileNotFoundError:
        res["problems"].append(f"Props/{pid}.lean missing")
        return res
    res["theorems"] = thms
    res["obligations"] = len(thms)
    res["partial"] = [t for t in thms if t.endswith("_partial")]
    if not ok:
        res["problems"].append("lake build failed: " + log[-1500:])
        return res
    # forbidden constructs anywhere in the import closure
    for m in lean_imports_closure(mod):
        src = strip_comments(open(os.path.join(LEAN, m.replace(".", "/") + ".lean"), encoding="utf-8").read())
        for ln in src.splitlines():
            if FORBIDDEN.search(ln):
                res["problems"].append(f"forbidden construct in {m}: {ln.strip()[:100]}")
    # axioms
    audit = os.path.join(LEAN, "build")
    os.makedirs(audit, exist_ok=True)
    apath = os.path.join(audit, f"Audit_{pid}.lean")
    with open(apath, "w") as f:
        f.write(f"import {mod}\n")
        for t in thms:
            f.write(f"#print axioms {t}\n")
    rc, out = run(["lake", "env", "lean", apath], cwd=LEAN)
    discharged = 0
    blocks = re.split(r"(?=^.*'[^']+' (?:depends on axioms|does not depend on any axioms))", out, flags=re.M)
    found = {}
    for b in blocks:
        m = re.search(r"'([^']+)' (depends on axioms: \[([^\]]*)\]|does not depend on any axioms)", b, re.S)
        if m:
            axs = set(a.strip() for a in (m.group(3) or "").replace("\n", " ").split(",") if a.strip())
            found[m.group(1)] = axs
    for t in thms:
        if t not in found:
            res["problems"].append(f"no axiom report for {t}: {out[-300:]}")
        elif not found[t] <= AXIOM_WHITELIST:
            res["problems"].append(f"{t} depends on non-whitelisted axioms {sorted(found[t] - AXIOM_WHITELIST)}")
        else:
            discharged += 1
    res["discharged"] = discharged
    if thorough:
        rc, out = run(["lake", "env", "leanchecker", mod], cwd=LEAN)
        res["leanchecker_rc"] = rc
        if rc != 0:
            res["problems"].append("leanchecker: " + out[-500:])
    res["ok"] = not res["problems"] and discharged == len(thms) and len(thms) > 0
    return res


def proof_counterexample(proof):
    """When the obligation that ties a REGENERATED function to the model breaks, search the two for an argument tuple
    on which they differ (Lean, exhaustive over a small domain). Returns a line of text or None."""
    text = (proof.get("log") or "") + " ".join(proof.get("problems") or [])
    # the search programs import the regenerated modules and the model, never the (broken) obligation modules
    lake_build(["BigtoolsModel.Generated.Funcs", "BigtoolsModel.Generated.Atoms", "BigtoolsModel.Tiler2", "BigtoolsModel.Sweep",
                "BigtoolsModel.WigSections", "BigtoolsModel.BedQueryBytes", "BigtoolsModel.ZoomQueryBytes", "BigtoolsModel.Validate", "BigtoolsModel.RT"])
    if "OverlapsGen" in text:
        rc, out = run(["lake", "env", "lean", "--run", "Cex/OverlapsCex.lean"], cwd=LEAN)
        m = re.search(r"^CEX (.*)$", out, re.M)
        if m:
            return "gen_overlaps_eq_ov: " + m.group(1)
    if "ValidateGen" in text:
        rc, out = run(["lake", "env", "lean", "--run", "Cex/ValidateCex.lean"], cwd=LEAN)
        m = re.search(r"^CEX (.*)$", out, re.M)
        if m:
            return "ValidateGen: " + m.group(1)
    if re.search(r"Atoms[A-Z]\w*\.lean|AtomsGen|ConvGen|WriteGen", text):          # Atoms<Group>.lean, ConvGen.lean, WriteGen<File>.lean
        rc, out = run(["lake", "env", "lean", "--run", "Cex/AtomsCex.lean"], cwd=LEAN)
        m = re.search(r"^CEX (.*)$", out, re.M)
        if m:
            return "regenerated expression: " + m.group(1)
    if "FiltersGen" in text:
        rc, out = run(["lake", "env", "lean", "--run", "Cex/FiltersCex.lean"], cwd=LEAN)
        m = re.search(r"^CEX (.*)$", out, re.M)
        if m:
            return "FiltersGen: " + m.group(1)
    return None


# ------------------------------------------------------------------------------------------------
# running cases

class CaseT:
    """A case of the line protocol (kept as text) plus generator tags."""

    def __init__(self, cid, kind, args=(), lines=(), tags=()):
        self.id, self.kind, self.args = cid, kind, list(args)
        self.lines = list(lines)
        self.tags = set(tags)

    def text(self, extra_lines=()):
        head = " ".join(["CASE", self.id, self.kind] + [str(a) for a in self.args])
        return "\n".join([head] + self.lines + list(extra_lines) + ["END"]) + "\n"

    def canon(self):
        return "\n".join([self.kind + " " + " ".join(str(a) for a in self.args)] + self.lines)

    def copy(self, **kw):
        c = CaseT(self.id, self.kind, self.args, self.lines, self.tags)
        for k, v in self.__dict__.items():
            if k not in ("id", "kind", "args", "lines", "tags"):
                setattr(c, k, v)
        for k, v in kw.items():
            setattr(c, k, v)
        return c

    def records(self, tag):
        return [l.split(" ") for l in self.lines if l.split(" ")[0] == tag]

    def opts(self):
        d = {}
        for l in self.records("OPT"):
            for kv in l[1:]:
                if "=" in kv:
                    k, v = kv.split("=", 1)
                    d[k] = v
        return d


def parse_case_file(text):
    cases, cur = [], None
    for line in text.splitlines():
        line = line.rstrip()
        if not line or line.startswith("#"):
            continue
        t = line.split(" ")
        if t[0] == "CASE":
            cur = CaseT(t[1], t[2] if len(t) > 2 else "", t[3:], [])
        elif t[0] == "END":
            if cur is not None:
                cases.append(cur)
            cur = None
        elif cur is not None:
            cur.lines.append(line)
    return cases


def parse_outputs(text):
    res, cur, cid = {}, None, None
    for line in text.splitlines():
        if line.startswith("CASE "):
            cid = line.split(" ")[1]
            cur = []
        elif line == "END":
            if cid is not None:
                res[cid] = cur
            cid, cur = None, None
        elif cur is not None:
            cur.append(line)
    if cid is not None and cur is not None:
        res[cid] = cur + ["R crashed"]      # the process died inside this case
    return res


MEM_LIMIT_GIB = [6]          # address-space limit of a harness process; a check that needs more for one case raises it (C12 thorough)


def _limit_memory():
    import resource
    lim = MEM_LIMIT_GIB[0] * 1024 ** 3
    resource.setrlimit(resource.RLIMIT_AS, (lim, lim))


def run_impl(cases, workdir, timeout=20, jobs=8):
    """Runs the cases against the real code. Restarts after a hang / abort. Returns {id: [lines]}."""
    os.makedirs(workdir, exist_ok=True)
    if not cases:
        return {}
    # split round-robin into `jobs` shards run concurrently
    jobs = max(1, min(jobs, len(cases)))
    shards = [cases[i::jobs] for i in range(jobs)]
    procs = []
    for si, shard in enumerate(shards):
        path = os.path.join(workdir, f"cases_{si}.txt")
        with open(path, "w") as f:
            for c in shard:
                f.write(c.text())
        procs.append((si, shard, path))
    results = {}

    def run_shard(si, shard, path):
        out_all = {}
        start_from = None
        attempts = 0
        hangs = 0
        while True:
            # after two hangs in a shard the watchdog is shortened: a change that makes many cases hang must not turn a
            # quick check into an hour (the first hangs are judged with the full timeout; a violation is certain by then)
            cmd = [HARNESS_BIN, "run", path, os.path.join(workdir, "out"), "--timeout", str(timeout if hangs < 2 else min(timeout, 4))]
            if start_from:
                cmd += ["--from", start_from]
            p = subprocess.run(cmd, stdout=subprocess.PIPE, stderr=subprocess.DEVNULL, text=True, errors="replace",
                               preexec_fn=_limit_memory)
            got = parse_outputs(p.stdout)
            out_all.update(got)
            if p.returncode == 0:
                break
            if any(v and v[0] == "R hang" for v in got.values()):
                hangs += 1
            # died / hang inside the last case reported: continue after it
            ids = [c.id for c in shard]
            done = [i for i in ids if i in out_all]
            if not done:
                # could not even start
                for i in ids:
                    out_all.setdefault(i, ["R crashed"])
                break
            last = max(ids.index(i) for i in done)
            if last + 1 >= len(ids):
                break
            start_from = ids[last + 1]
            attempts += 1
            if attempts > len(ids) + 2:
                break
        return out_all

    import concurrent.futures
    with concurrent.futures.ThreadPoolExecutor(max_workers=jobs) as ex:
        futs = [ex.submit(run_shard, *p) for p in procs]
        for f in futs:
            results.update(f.result())
    return results


def run_model(cases, workdir, extra=None, timeout=600):
    """Runs the cases through the Lean driver. `extra[id]` = lines appended to the case (information the
    model takes from the implementation's answer, e.g. which zoom levels were stored)."""
    if len(cases) > 1200:
        # the driver is single-threaded: large batches go through several driver processes at once
        import concurrent.futures
        n = 8
        chunks = [cases[i::n] for i in range(n)]
        res = {}
        with concurrent.futures.ThreadPoolExecutor(max_workers=n) as ex:
            futs = [ex.submit(run_model, ch, os.path.join(workdir, f"m{i}"), extra, max(timeout, 1200)) for i, ch in enumerate(chunks) if ch]
            for f in futs:
                res.update(f.result())
        return res
    os.makedirs(workdir, exist_ok=True)
    path = os.path.join(workdir, "model_cases.txt")
    with open(path, "w") as f:
        for c in cases:
            f.write(c.text((extra or {}).get(c.id, ())))
    p = subprocess.run([MODEL_BIN, path], stdout=subprocess.PIPE, stderr=subprocess.PIPE, text=True,
                       errors="replace", timeout=timeout)
    res = parse_outputs(p.stdout)
    if p.returncode != 0:
        for c in cases:
            res.setdefault(c.id, ["R model-crashed " + p.stderr[-200:].replace("\n", " ")])
    return res


# ------------------------------------------------------------------------------------------------
# known findings, verdicts, evidence

def load_known():
    p = os.path.join(VERIF, "known_findings.json")
    if not os.path.exists(p):
        return {"findings": [], "fixed": []}
    return json.load(open(p))


class Report:
    def __init__(self, pid, tier, seed):
        self.pid, self.tier, self.seed = pid, tier, seed
        self.t0 = time.time()
        self.violations = []       # (replay path, tail text)
        self.known = []
        self.coverage = {}
        self.assumptions = []
        self.hist = {}
        self.samples = []
        self.evals = 0
        self.nontrivial = set()
        self.notes = []
        shutil.rmtree(os.path.join(BUILD, "replays", pid), ignore_errors=True)

    def tag(self, t, n=1):
        self.hist[t] = self.hist.get(t, 0) + n

    def replay_path(self, name):
        d = os.path.join(BUILD, "replays", self.pid)
        os.makedirs(d, exist_ok=True)
        return os.path.join(d, name)

    def violation(self, name, content, tail=""):
        path = self.replay_path(name)
        with open(path, "w") as f:
            f.write(content)
        self.violations.append((path, tail))

    def known_finding(self, what):
        if what not in self.known:
            self.known.append(what)

    def finish(self, proof, level="proof", extra_cov=None):
        cov = {
            "obligations": proof.get("obligations", 0),
            "discharged": proof.get("discharged", 0),
            "checker_cmd": proof.get("checker_cmd", ""),
            "trusted_base": [
                "Lean 4.33.0 kernel (thorough tier: leanchecker re-check)",
                "axioms: propext, Classical.choice, Quot.sound only (audited with #print axioms on every property theorem)",
                "hand-written Lean model of the code, tied to /repo by the correspondence run of this check (same cases through the real code and the model driver) and by constants/tables re-extracted from the source",
                "harness (/verif/harness), case generators and oracles (/verif/tools)",
            ],
            "theorems": proof.get("theorems", []),
            "partial_theorems": proof.get("partial", []),
            "proof_problems": proof.get("problems", []),
            "evaluations": self.evals,
            "distinct_nontrivial": len(self.nontrivial),
            "samples": self.samples[:6],
            "histogram": self.hist,
            "known_findings_hit": self.known,
            "notes": self.notes,
        }
        cov.update(self.coverage)
        if extra_cov:
            cov.update(extra_cov)
        ev = {
            "property_id": self.pid, "tier": self.tier, "seed": self.seed, "level": level,
            "coverage": cov, "assumptions": self.assumptions,
            "wall_s": round(time.time() - self.t0, 2), "violations": len(self.violations),
        }
        os.makedirs(os.path.join(VERIF, "evidence"), exist_ok=True)
        with open(os.path.join(VERIF, "evidence", f"{self.pid}.json"), "w") as f:
            json.dump(ev, f, indent=1, sort_keys=True)
            f.write("\n")
        for k in self.known:
            print(f"KNOWN-FINDING: property={self.pid} {k}")
        for path, tail in self.violations:
            print(f"VIOLATION property={self.pid} replay={path}" + (f" {tail}" if tail else ""))
        sys.stdout.flush()
        return 1 if self.violations else 0


def case_hash(c):
    return hashlib.sha256(c.canon().encode()).hexdigest()[:16]


# ------------------------------------------------------------------------------------------------
# the differential runner shared by the properties

class Prop:
    """Base class of a property's check. Subclasses live in tools/props/<ID>.py."""
    pid = "C00"
    rule = ""
    impl_timeout = 20
    needs_repo_bins = False
    max_reported = 5
    removable = ("V", "E", "Q", "OP", "MV", "CHROM", "AOB")

    def cases(self, rng, tier):
        raise NotImplementedError

    def corpus(self):
        d = os.path.join(VERIF, "corpus", self.pid)
        out = []
        if os.path.isdir(d):
            for fn in sorted(os.listdir(d)):
                if fn.endswith(".case"):
                    for c in parse_case_file(open(os.path.join(d, fn)).read()):
                        c.id = "corpus_" + fn[:-5] + "_" + c.id
                        c.tags.add("corpus")
                        out.append(c)
        return out

    def model_extra(self, case, impl_lines):
        return []

    def view(self, lines):
        """The lines of an answer that take part in the comparison (property-level observables)."""
        return lines

    def compare(self, case, impl_lines, model_lines):
        a, b = self.view(impl_lines), self.view(model_lines)
        if a == b:
            return None
        for i in range(max(len(a), len(b))):
            x = a[i] if i < len(a) else "<missing>"
            y = b[i] if i < len(b) else "<missing>"
            if x != y:
                return f"line {i}: implementation `{x[:300]}` model `{y[:300]}`"
        return "different"

    def oracle(self, case, impl_lines):
        """Property-level judgement of the implementation's answer alone. None = fine, else what fails."""
        return None

    def nontrivial(self, case, impl_lines):
        return True

    def tags(self, case, impl_lines):
        return case.tags

    def known_match(self, finding, case, reason):
        return False

    def shrink_lines(self, case):
        idx = [i for i, l in enumerate(case.lines) if l.split(" ")[0] in self.removable]
        # never empty the input itself: an empty input is a different case class
        for tag in ("V", "E", "MV"):
            mine = [i for i in idx if case.lines[i].split(" ")[0] == tag]
            if len(mine) == 1:
                idx.remove(mine[0])
        return idx

    def extra_checks(self, rep, tier, rng, workdir):
        """Hook for checks that do not fit the case protocol (CLI runs, Python API). Returns nothing;
        reports through rep."""
        return


def reason_key(r):
    """failure kind: the reason with numbers / hex abstracted, cut at the first detail"""
    return re.sub(r"[0-9a-f]{6,}|\d+", "N", r.split(":")[0])[:64]


def shrink(prop, case, still_fails, workdir, budget=12, seconds=45):
    """ddmin over the removable lines: chunks of decreasing size, evaluated in batches; bounded in time.
    `still_fails(list of cases) -> list of bool`."""
    cur = case
    t0 = time.time()
    rounds = 0
    chunk = None
    while rounds < 4 * budget and time.time() - t0 < seconds:
        rounds += 1
        idxs = prop.shrink_lines(cur)
        if not idxs:
            break
        if chunk is None or chunk > len(idxs):
            chunk = max(1, len(idxs) // 2)
        cands = []
        for k in range(0, len(idxs), chunk):
            drop = set(idxs[k:k + chunk])
            c = cur.copy(lines=[l for j, l in enumerate(cur.lines) if j not in drop])
            c.id = f"{case.id}_s{rounds}_{k}"
            cands.append(c)
            if len(cands) >= 24:
                break
        res = still_fails(cands)
        hit = next((c for c, bad in zip(cands, res) if bad), None)
        if hit is not None:
            cur = hit
        elif chunk == 1:
            break
        else:
            chunk = max(1, chunk // 2)
    cur.id = case.id + "_min"
    return cur


def run_differential(prop, tier, seed, replay=None):
    pid = prop.pid
    rep = Report(pid, tier, seed)
    rng = Prng(seed)
    workdir = os.path.join(BUILD, "work", f"{pid}_{tier}_{os.getpid()}")
    shutil.rmtree(workdir, ignore_errors=True)
    os.makedirs(workdir)
    try:
        import extract_consts
        failed_consts, consts_changed = extract_consts.main()
    except Exception as e:                      # the extractor itself must never decide a verdict
        failed_consts, consts_changed = ["extractor crashed: " + str(e)[:100]], False
    rep.coverage["extraction_failed"] = failed_consts
    if failed_consts:
        # not a verdict (the behavioural correspondence remains the tie), but a blind spot of the proof side: say so
        print(f"NOTE property={pid} extraction_failed={failed_consts} (these regenerated expressions keep their committed definitions)")
    rep.coverage["constants_changed_since_last_run"] = consts_changed
    proof = proof_status(pid, thorough=(tier == "thorough"))
    rep.coverage["phase_s"] = {"proof": round(time.time() - rep.t0, 1)}
    okb, blog = build_harness()
    if okb and prop.needs_repo_bins:
        okb, blog = build_repo_bins(prop.needs_repo_bins if isinstance(prop.needs_repo_bins, tuple) else ("bigtools",))
    if not okb:
        rep.notes.append("build of the harness against /repo failed")
        rep.violation("build_failure.txt",
                      "The harness / repository no longer builds against /repo's working tree, so no correspondence "
                      "could be established.\n\n" + blog[-3000:],
                      "no-failing-input-found")
        rc = rep.finish(proof)
        shutil.rmtree(workdir, ignore_errors=True)
        return rc
    if replay:
        cases = parse_case_file(open(replay).read())
    else:
        cases = prop.corpus() + prop.cases(rng.fork("cases"), tier)
    seen_ids = set()
    for i, c in enumerate(cases):
        if c.id in seen_ids:
            c.id = f"{c.id}_{i}"
        seen_ids.add(c.id)

    def judge(batch, sub):
        """-> {id: (impl_lines, model_lines, mismatch, oracle_reason)}"""
        wd = os.path.join(workdir, sub)
        impl = run_impl(batch, wd, timeout=prop.impl_timeout if sub == "main" else min(prop.impl_timeout, getattr(prop, "sub_timeout", 6)))
        extra = {c.id: prop.model_extra(c, impl.get(c.id, [])) for c in batch}
        try:
            model = run_model(batch, wd, extra)
        except subprocess.TimeoutExpired:
            model = {}
        out = {}
        prop._outdir = os.path.join(wd, "out")
        for c in batch:
            il, ml = impl.get(c.id, ["R missing"]), model.get(c.id, ["R model-missing"])
            if sub == "main":
                out[c.id] = (il, ml, prop.compare(c, il, ml), prop.oracle(c, il))
            else:
                # shrink candidates may lack lines a judge relies on (a query, an option): such a candidate is simply not a
                # smaller failing case
                try:
                    out[c.id] = (il, ml, prop.compare(c, il, ml), prop.oracle(c, il))
                except Exception:               # noqa
                    out[c.id] = (il, ml, None, None)
        return out

    rep.coverage["phase_s"]["build+generate"] = round(time.time() - rep.t0, 1)
    verdicts = judge(cases, "main")
    prop._last_cases = cases
    prop._last_impl = {c.id: verdicts[c.id][0] for c in cases}
    rep.coverage["phase_s"]["main_run"] = round(time.time() - rep.t0, 1)
    failing, disagreeing = [], []
    for c in cases:
        il, ml, mm, orc = verdicts[c.id]
        rep.evals += 1
        for t in prop.tags(c, il):
            rep.tag(t)
        if prop.nontrivial(c, il):
            rep.nontrivial.add(case_hash(c))
        if len(rep.samples) < 4 and "corpus" not in c.tags:
            rep.samples.append({"case": c.text().splitlines()[:14], "implementation": il[:8]})
        if orc:
            failing.append((c, orc))
        elif mm:
            disagreeing.append((c, mm))
    rep.coverage["impl_oracle_failures"] = len(failing)
    rep.coverage["model_disagreements"] = len(disagreeing)
    known = [f for f in load_known().get("findings", []) if f.get("property") == pid]
    reported = {}
    # failures that ARE a listed known finding (judged on the case as generated) are set aside first, so that a known
    # finding can never stand in for — and hide — a different failure that happens to be worded alike
    unknown = []
    for c, orc in failing:
        hit = next((f for f in known if prop.known_match(f, c, orc)), None)
        if hit:
            rep.known_finding(hit.get("what", hit.get("id", "")))
        else:
            unknown.append((c, orc))
    # one representative per kind of failure (digits abstracted), smallest case first
    reps, seen_keys = [], set()
    for c, orc in sorted(unknown, key=lambda x: len(x[0].lines)):
        k0 = c.kind + ":" + reason_key(orc)
        if k0 not in seen_keys:
            seen_keys.add(k0)
            reps.append((c, orc))
    for c, orc in reps[:3 * prop.max_reported]:
        if len(reported) >= prop.max_reported:
            break

        def still(cands, _c=c, _orc=orc):
            v = judge(cands, "shrink")
            return [bool(v[x.id][3]) and reason_key(v[x.id][3]) == reason_key(_orc) for x in cands]
        small = shrink(prop, c, still, workdir) if not replay and "no_shrink" not in c.tags else c
        v = judge([small], "final")[small.id]
        reason = v[3] or orc
        use = small if v[3] else c
        if use is not c and any(prop.known_match(f, use, reason) for f in known):
            # shrinking turned this failure into an instance of a known finding: report the case as generated
            use, reason, v = c, orc, verdicts[c.id]
        key = reason_key(reason)
        if key in reported:
            continue
        reported[key] = True
        il2, ml2 = v[0], v[1]
        rep.violation(f"{use.id}.case",
                      use.text() + f"# property oracle on the implementation's answer: {reason}\n" +
                      "# implementation answered:\n" + "".join(f"#   {l}\n" for l in il2[:60]) +
                      "# model answered:\n" + "".join(f"#   {l}\n" for l in ml2[:60]))
    found_input = bool(rep.violations) or bool(rep.known and failing)
    if disagreeing and not rep.violations:
        # correspondence broken without a failing input: widen the search around the disagreeing cases first
        c, mm = disagreeing[0]

        def still2(cands, _c=c):
            v = judge(cands, "shrink")
            return [bool(v[x.id][2]) for x in cands]
        small = shrink(prop, c, still2, workdir) if not replay and "no_shrink" not in c.tags else c
        v = judge([small], "final")[small.id]
        use = small if v[2] else c
        rep.violation(f"{use.id}.case",
                      use.text() + f"# correspondence `{pid}` (implementation vs model on the property's observables) no longer checks: {v[2] or mm}\n" +
                      "# the property oracle accepts the implementation's answer on every case tried; no failing input found\n" +
                      "# implementation answered:\n" + "".join(f"#   {l}\n" for l in v[0][:60]) +
                      "# model answered:\n" + "".join(f"#   {l}\n" for l in v[1][:60]),
                      "no-failing-input-found")
    rep.coverage["phase_s"]["classify+shrink"] = round(time.time() - rep.t0, 1)
    prop.extra_checks(rep, tier, rng.fork("extra"), workdir)
    rep.coverage["phase_s"]["extra"] = round(time.time() - rep.t0, 1)
    cex = proof_counterexample(proof) if not proof["ok"] else None
    if cex:
        rep.notes.append("broken proof obligation, failing input of the regenerated function: " + cex)
    if not proof["ok"] and not rep.violations:
        rep.violation("proof_obligation.txt",
                      "Proof obligations of Props/%s.lean no longer check:\n%s\n" % (pid, "\n".join(proof["problems"])) +
                      (("Search in the model: " + cex + "\n") if cex else "") +
                      "The correspondence run found no failing input.\n",
                      "no-failing-input-found")
    rep.coverage["rule"] = prop.rule
    rc = rep.finish(proof)
    if replay:
        for c in cases:
            il, ml, mm, orc = verdicts[c.id]
            print(f"--- replay of {c.id}: oracle: {orc or 'ok'}; correspondence: {mm or 'ok'}")
            for l in il[:40]:
                print("  impl :", l[:200])
            for l in ml[:40]:
                print("  model:", l[:200])
    shutil.rmtree(workdir, ignore_errors=True)
    return rc
