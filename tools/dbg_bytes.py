#!/usr/bin/env python3
"""debug aid: byte diff between the model writer and the real writer for one generated case: dbg_bytes.py <PID> <caseid> [tier]"""
import os, sys, importlib, shutil
sys.path.insert(0, os.path.dirname(os.path.abspath(__file__)))
sys.path.insert(0, os.path.join(os.path.dirname(os.path.abspath(__file__)), "props"))
import vlib
from vlib import Prng, CaseT, run_impl, run_model
pid, cid = sys.argv[1], sys.argv[2]
tier = sys.argv[3] if len(sys.argv) > 3 else "quick"
prop = importlib.import_module(pid).PROP
seed = int(os.environ.get("VERIF_SEED", "20260929"))
cases = prop.cases(Prng(seed).fork("cases"), tier)
c = next(x for x in cases if x.id == cid)
wd = "/tmp/dbgbytes"; shutil.rmtree(wd, ignore_errors=True); os.makedirs(wd)
impl = run_impl([c], os.path.join(wd, "impl"))
real = open(os.path.join(wd, "impl", "out", cid + ".bin"), "rb").read() if os.path.exists(os.path.join(wd, "impl", "out", cid + ".bin")) else None
kind = "bedbytes" if c.kind == "bed" else "wigbytes"
lines = [l.replace("OPT ", "OPT dump=1 ", 1) if l.startswith("OPT ") else l for l in c.lines]
mo = run_model([CaseT("x", kind, [], lines)], os.path.join(wd, "model"))
hx = next(l for l in mo["x"] if l.startswith("HEX"))[4:]
model = bytes.fromhex(hx)
print("\n".join(c.lines[:3]))
print("real", len(real) if real else None, "model", len(model))
if real:
    diffs = [i for i in range(min(len(real), len(model))) if real[i] != model[i]]
    print("ndiff", len(diffs), "first", diffs[:20])
    for i in diffs[:3]:
        lo = max(0, i - 16)
        print(i, "real ", real[lo:i + 32].hex())
        print(i, "model", model[lo:i + 32].hex())
if os.environ.get("DBG_ZOOM"):
    import bbi_codec
    for nm, data in (("real", real), ("model", model)):
        d = bbi_codec.decode(data)
        print(nm, "keys", list(d.keys()))
        for z in d.get("zooms", []):
            recs = z.get("records") or z.get("recs") or []
            print(nm, "level", z.get("reduction"), "n", len(recs), recs[:int(os.environ["DBG_ZOOM"])])
if os.environ.get("DBG_IDX"):
    import bbi_codec
    for nm, data in (("real", real), ("model", model)):
        d = bbi_codec.decode(data)
        for z in d.get("zooms", []):
            ix = z.get("index")
            print(nm, "level", z.get("reduction"), {k: (v if not isinstance(v, (list, dict)) else type(v).__name__ + str(len(v))) for k, v in ix.items()} if isinstance(ix, dict) else ix)
            lv = ix.get("leaves") if isinstance(ix, dict) else None
            if lv: print("   leaves", lv[:50])
