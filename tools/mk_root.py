#!/usr/bin/env python3
"""Regenerates lean/BigtoolsModel.lean (the library root importing every module)."""
import os
LEAN = os.path.join(os.path.dirname(os.path.dirname(os.path.abspath(__file__))), "lean")
mods = []
for root, _, files in os.walk(os.path.join(LEAN, "BigtoolsModel")):
    for f in files:
        if f.endswith(".lean"):
            m = os.path.relpath(os.path.join(root, f), LEAN)[:-5].replace("/", ".")
            if m != "BigtoolsModel.Driver.Main":
                mods.append(m)
with open(os.path.join(LEAN, "BigtoolsModel.lean"), "w") as f:
    f.write("-- Root of the BigtoolsModel library: every model, lemma, property and driver module.\n")
    f.write("".join(f"import {m}\n" for m in sorted(mods)))
