"""C03 — bigWig range queries return exactly the overlapping values, clipped, in order."""
from vlib import CaseT
from wbprop import WigBedProp
import bbgen
from props import C10 as c10


class C03(WigBedProp):
    pid = "C03"
    rule = ("files written as in C01 (non-empty values); per file a sequence of 6–10 interval and per-base queries on the boundary "
            "set {0, len, every value start/end ±1, every block boundary ±1}, empty ranges included, against one reader "
            "instance: plain, caching, a fresh reader per query, a fresh caching reader per query, the file on disk through open_file "
            "with readers reopened from the original after it has answered queries / opened anew on a reopened handle / "
            "reopened and caching, four reopened readers answering concurrently with the original, the file behind a BufReader (short reads); files whose index nodes (fan-out 300–700) are wider than any buffer; and bigWigs from the independent "
            "encoder of C10 (bedGraph, variable-step and fixed-step sections with span ≠ step, either byte order, permuted "
            "chromosome ids), same reader modes, judged against the encoded content. "
            "Non-trivial = a query that cuts a value or ends on a block boundary in a multi-section file")

    def cases(self, rng, tier):
        n = 2500 if tier == "thorough" else 300
        out = []
        for k in range(n):
            r = rng.fork(k)
            names, sizes, data, tags = bbgen.gen_wig_input(r, value_mode=r.choice(["int", "bits"]))
            o = bbgen.gen_options(r, tier)
            o["ips"] = r.choice([1, 2, 3, 7])
            o["bs"] = r.choice([2, 3, 5])
            o["reader"] = r.choice(["plain", "cached", "fresh", "freshcached", "reopened", "reopenedmt", "bufreader", "bufreadercached"])
            names = bbgen.free_chrom_order(r, names, o, tags)
            lines = [bbgen.opt_line(o)] + bbgen.wig_lines(names, sizes, data)
            lines += bbgen.gen_queries(r, names, sizes, data, ["iv", "iv", "vals"], r.range(6, 10), ips=o["ips"])
            tags.add("reader_" + o["reader"])
            tags.add("nt")
            out.append(CaseT(f"q{k}", "wig", [], lines, self.common_tags(o, names, data, tags)))
        # bigWigs no bigtools writer produces: variable-step / fixed-step sections, big-endian, any index layout
        for k in range(400 if tier == "thorough" else 60):
            c = c10.foreign_case(rng.fork(f"foreign{k}"), f"f{k}", bed=False, readers=("plain", "cached", "fresh", "freshcached", "reopened", "reopenedmt", "bufreader", "bufreadercached"))
            if c is not None:
                c.tags.add("foreign_file")
                out.append(c)
        # index nodes wider than any buffer: fan-out 300–700 with one value per block, so a leaf node of the index is 9–22 KiB
        # — read through a BufReader (short reads), a plain file and a cursor
        for g in range(3 if tier != "thorough" else 8):
            r = rng.fork(f"widenode{g}")
            bs = r.choice([300, 420, 700])
            nvals = bs + r.range(-20, 40)
            data = {"chr1": [(5 * i, 5 * i + 3, bbgen.f32bits(float(1 + i % 9))) for i in range(nvals)], "chr2": [(3, 9, bbgen.f32bits(2.0))]}
            sizes = {"chr1": 5 * nvals + 10, "chr2": 50}
            o = {"compress": r.choice([0, 1]), "ips": 1, "bs": bs, "zooms": "none", "pass": 1, "inmem": 1, "rt": "mt", "threads": 2, "chan": 100,
                 "src": "iter", "sort": "all", "reader": ["bufreader", "bufreadercached", "reopened"][g % 3]}
            lines = [bbgen.opt_line(o)] + bbgen.wig_lines(["chr1", "chr2"], sizes, data)
            lines += [f"Q iv chr1 0 {sizes['chr1']}", f"Q iv chr1 {5 * 260} {5 * 260 + 40}", f"Q vals chr1 {5 * (nvals - 3)} {5 * nvals}", "Q iv chr2 0 50",
                      f"Q iv chr1 {5 * 255} {5 * 258}"]
            out.append(CaseT(f"wide{g}", "wig", [], lines, {"index_node_wider_than_a_buffer", "nt", "multi_section", "reader_" + o["reader"]}))
        # the caching reader's reset: a file with more than 5000 one-value blocks, queried through the caching reader in
        # an order that fills the block cache past its limit and then revisits early blocks
        nblocks = 5200
        data = {"chr1": [(3 * i, 3 * i + 2, bbgen.f32bits(float(1 + i % 7))) for i in range(nblocks)]}
        sizes = {"chr1": 3 * nblocks + 10}
        for variant in range(2 if tier == "thorough" else 1):
            o = {"compress": variant, "ips": 1, "bs": 256, "zooms": "none", "pass": 1, "inmem": 1, "rt": "mt", "threads": 2, "chan": 100,
                 "src": "iter", "sort": "all", "reader": "cached"}
            lines = [bbgen.opt_line(o)] + bbgen.wig_lines(["chr1"], sizes, data)
            lines += [f"Q iv chr1 0 40", f"Q iv chr1 0 {sizes['chr1']}", "Q iv chr1 0 40", "Q iv chr1 7000 7100",
                      f"Q iv chr1 {3 * 5100} {3 * 5100 + 50}", "Q iv chr1 1 9", f"Q vals chr1 {3 * 5001} {3 * 5001 + 30}", "Q iv chr1 0 40"]
            out.append(CaseT(f"cache{variant}", "wig", [], lines, {"cache_limit_reached", "nt", "multi_section"}))
        return out

    def oracle(self, case, il):
        if "CONC differ" in il:
            return ("readers reopened from one file and used concurrently (each from its own thread, together with the original) "
                    "do not all return the stored values")
        if case.kind == "readwig":
            return c10.PROP.oracle(case, il)
        return bbgen.basic_ok(il) or bbgen.oracle_wig_queries(case, il)

    def compare(self, case, il, ml):
        if case.kind == "readwig":
            return c10.PROP.compare(case, il, ml)
        return super().compare(case, il, ml)

    def model_extra(self, case, il):
        if case.kind == "readwig":
            return []
        return super().model_extra(case, il)

    def nontrivial(self, case, il):
        return "nt" in case.tags


PROP = C03()
