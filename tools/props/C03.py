"""C03 — bigWig range queries return exactly the overlapping values, clipped, in order."""
from vlib import CaseT
from wbprop import WigBedProp
import bbgen


class C03(WigBedProp):
    pid = "C03"
    rule = ("files written as in C01 (non-empty values); per file a sequence of 6–10 interval and per-base queries on the boundary "
            "set {0, len, every value start/end ±1, every block boundary ±1}, empty ranges included, against one reader "
            "instance: plain, caching, a fresh reader per query, a fresh caching reader per query. "
            "Non-trivial = a query that cuts a value or ends on a block boundary in a multi-section file")

    def cases(self, rng, tier):
        n = 2500 if tier == "thorough" else 300
        out = []
        for k in range(n):
            r = rng.fork(k)
            names, sizes, data, tags = bbgen.gen_wig_input(r, value_mode=r.choice(["int", "bits"]))
            o = bbgen.gen_options(r, tier)
            o["ips"] = r.choice([1, 2, 3, 7])
            o["bs"] = r.choice([2, 3, 5])
            o["reader"] = r.choice(["plain", "cached", "fresh", "freshcached"])
            lines = [bbgen.opt_line(o)] + bbgen.wig_lines(names, sizes, data)
            lines += bbgen.gen_queries(r, names, sizes, data, ["iv", "iv", "vals"], r.range(6, 10), ips=o["ips"])
            tags.add("reader_" + o["reader"])
            tags.add("nt")
            out.append(CaseT(f"q{k}", "wig", [], lines, self.common_tags(o, names, data, tags)))
        return out

    def oracle(self, case, il):
        return bbgen.basic_ok(il) or bbgen.oracle_wig_queries(case, il)


PROP = C03()
