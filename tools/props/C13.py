"""C13 — unrepresentable input is refused with an error, and every write call terminates."""
from vlib import CaseT, hexs, f32bits
from wbprop import WigBedProp
import bbgen

WIG_CLASSES = ["overlap", "start_gt_end", "end_gt_len", "unknown_chrom", "chrom_order", "malformed", "empty", "out_of_order", "not_grouped"]
BED_CLASSES = ["out_of_order", "start_gt_end", "start_ge_len", "unknown_chrom", "chrom_order", "malformed", "empty", "not_grouped"]


def base_input(rng, bed):
    names = ["chr1", "chr2", "chr3"]
    sizes = {"chr1": 1000, "chr2": 500, "chr3": 800}
    data = {}
    for nm in names:
        n = rng.range(3, 6)
        pos, items = rng.range(0, 20), []
        for i in range(n):
            ln = rng.range(1, 30)
            if bed:
                items.append((pos, min(sizes[nm], pos + ln), "x"))
                pos += rng.range(0, 25)
            else:
                items.append((pos, pos + ln, f32bits(float(rng.range(1, 5)))))
                pos += ln + rng.range(0, 25)
        data[nm] = items
    return names, sizes, data


def text_of(names, data, bed, bad_line=None):
    lines = []
    for nm in names:
        for (s, e, x) in data[nm]:
            lines.append(f"{nm}\t{s}\t{e}\t{x}" if bed else f"{nm}\t{s}\t{e}\t{bbgen.bits_f32(x)}")
    if bad_line is not None:
        k, txt = bad_line
        lines[k] = txt
    return "\n".join(lines) + "\n"


class C13(WigBedProp):
    pid = "C13"
    impl_timeout = 15
    view_tags = ("R",)
    rule = ("each violation class (bigWig: overlapping / out-of-order intervals, start > end, end beyond the chromosome, unknown "
            "chromosome, chromosomes out of order, malformed line, empty input; bigBed: out-of-order starts, start > end, start "
            "beyond the chromosome, …) injected at EVERY item position of the first / middle / last chromosome of a valid "
            "three-chromosome input × {bigWig, bigBed} × {iterator, file, parallel file source} × {single pass, two pass}; plus "
            "input that is not grouped (a chromosome with a second run later in the file; every sort mode); the same classes at EVERY chromosome position of 8-chromosome inputs (more chromosomes than the parallel source queues at once); valid degenerate inputs (only zero-length items, one item, a chromosome listed but absent, odd manual zoom lists). "
            "Every call runs under catch_unwind and a 15 s watchdog. Non-trivial = an injected violation (all but the valid ones)")
    removable = ()

    def cases(self, rng, tier):
        out, k = [], 0
        reps = 3 if tier == "thorough" else 1
        for rep_i in range(reps):
            for bed in (False, True):
                for cls in (BED_CLASSES if bed else WIG_CLASSES):
                    for ci in (0, 1, 2):
                        for pi in (0, 1, 2, 3, 4):            # EVERY item position of the chromosome (3–5 items)
                            for src in ("iter", "file", "par"):
                                for ps in (1, 2):
                                    if cls in ("malformed",) and src == "iter":
                                        continue
                                    if cls == "empty" and (ci, pi) != (0, 0):
                                        continue
                                    if tier != "thorough" and rng.chance(1, 2) and cls != "empty":
                                        continue
                                    r = rng.fork(k)
                                    c = self.make(r, k, bed, cls, ci, pi, src, ps)
                                    if c:
                                        out.append(c)
                                    k += 1
        # many chromosomes (more than the parallel source queues at once): a violation in / at EVERY chromosome position
        for bed in (False, True):
            for cls in ("chrom_order", "unknown_chrom", "overlap_or_order", "malformed", "not_grouped"):
                for nch in ((7, 9) if tier == "thorough" else (8,)):
                    for pos in range(nch):
                        for src in ("iter", "file", "par"):
                            for ps in (1, 2):
                                if cls == "malformed" and src == "iter":
                                    continue
                                if tier != "thorough" and (pos + ps + (src == "file")) % 2 and src != "par":
                                    continue
                                c = self.make_many(rng.fork(f"many{k}"), k, bed, cls, nch, pos, src, ps)
                                if c:
                                    out.append(c)
                                k += 1
        # VALID inputs with more chromosomes than any internal queue or channel holds (the parallel source queues five; the
        # two-pass writer hands one message per chromosome to a channel per zoom level): every executor flavour and channel size
        for bed in (False, True):
            for nch in ((12, 40, 120) if tier == "thorough" else (12, 120)):
                for src in ("iter", "file", "par"):
                    for ps in (1, 2):
                        for rep in range(2 if nch == 12 else 1):
                            c = self.make_many(rng.fork(f"valid{k}"), k, bed, "valid", nch, 0, src, ps)
                            if c:
                                out.append(c)
                            k += 1
        # valid genome-scale inputs: chromosomes of up to 2^32 - 1 bases, widely spaced items with non-round values (data
        # sections that do not compress at all), values / entries longer than 2^24 bases: must be accepted and must return
        for g in range(48 if tier == "thorough" else 12):
            r = rng.fork(f"genome{g}")
            bed = g % 3 == 2
            names, sizes, data, tags = bbgen.gen_genome_scale(r, bed=bed, value_mode=r.choice(["dec", "bits"]), nitems=r.choice([30, 60, 100]))
            o = {"compress": 1, "ips": r.choice([64, 1024]), "bs": r.choice([2, 256]), "zooms": r.choice(["auto", "none", "100000,400000"]), "pass": 1 + g % 2, "inmem": g % 2,
                 "rt": "mt", "threads": 2, "chan": 100, "src": ("iter", "file", "par")[g % 3], "sort": "all", "izs": 100000}
            lines = [bbgen.opt_line(o)] + (bbgen.bed_lines(names, sizes, data) if bed else bbgen.wig_lines(names, sizes, data))
            out.append(CaseT(f"genome{g}", "bed" if bed else "wig", [], lines, {"valid_genome_scale", f"src_{o['src']}", "bed" if bed else "wig"}))
        # valid degenerate inputs: must be accepted and must return
        for bed in (False, True):
            for variant in ("zero_only", "one_item", "absent_chrom", "zero_mid", "zero_start_only_chrom2"):
                for src in ("iter", "file", "par"):
                    for ps in (1, 2):
                        for zooms in ("auto", "none", "10", "0", "10,10", "40,10"):
                            if tier != "thorough" and zooms in ("0", "10,10", "40,10") and src != "iter":
                                continue
                            out.append(self.degenerate(k, bed, variant, src, ps, zooms))
                            k += 1
        return out

    def make(self, r, k, bed, cls, ci, pi, src, ps):
        if cls == "not_grouped":
            return None                     # injected by make_many
        names, sizes, data = base_input(r, bed)
        nm = names[ci]
        items = data[nm]
        if pi >= len(items):
            return None
        idx = pi
        pi = "first" if idx == 0 else "last" if idx == len(items) - 1 else f"inner{idx}"
        o = {"compress": r.choice([0, 1]), "ips": r.choice([1, 2, 1024]), "bs": r.choice([2, 256]),
             "zooms": r.choice(["auto", "none", "10"]), "pass": ps, "inmem": r.choice([0, 1]), "rt": "mt",
             "threads": r.choice([1, 2, 4]), "chan": r.choice([0, 1, 100]), "src": src, "sort": "all"}
        tags = {cls, f"src_{src}", f"pass_{ps}", "bed" if bed else "wig", f"chrom_{ci}", f"item_{pi}", "injected"}
        raw_text = None
        s, e, x = items[idx]
        if cls == "overlap":
            if idx + 1 >= len(items):
                if idx == 0:
                    return None
                ps_, pe_, px_ = items[idx - 1]
                items[idx - 1] = (ps_, s + 1, px_)
                if items[idx - 1][1] <= items[idx - 1][0] or s + 1 > e:
                    items[idx - 1] = (ps_, s + 1, px_)
            else:
                items[idx] = (s, items[idx + 1][0] + 1, x)
        elif cls == "out_of_order":
            if idx == 0:
                if len(items) < 2:
                    return None
                items[0], items[1] = items[1], items[0]
                if bed and items[0][0] == items[1][0]:
                    items[0] = (items[0][0] + 1, items[0][1] + 1, items[0][2])
            else:
                items[idx] = (max(0, items[idx - 1][0] - 1), max(0, items[idx - 1][0] - 1) + 1, x) if items[idx - 1][0] > 0 else None
                if items[idx] is None:
                    return None
        elif cls == "start_gt_end":
            items[idx] = (e + 1, e, x) if not bed else (min(s + 5, sizes[nm] - 1), s, x) if s > 0 else (3, 1, x)
            if bed and idx > 0 and items[idx][0] < items[idx - 1][0]:
                items[idx] = (items[idx - 1][0] + 2, items[idx - 1][0] + 1, x)
        elif cls == "end_gt_len":
            if idx != len(items) - 1:
                idx = len(items) - 1
                s, e, x = items[idx]
            items[idx] = (s, sizes[nm] + 1, x)
        elif cls == "start_ge_len":
            idx = len(items) - 1
            items[idx] = (sizes[nm], sizes[nm] + 3, x)
        elif cls == "unknown_chrom":
            del sizes[nm]
        elif cls == "chrom_order":
            if ci == 0:
                names = [names[1], names[0], names[2]]
            elif ci == 1:
                names = [names[0], names[2], names[1]]
            else:
                names = [names[2], names[0], names[1]]
            if src == "par":
                tags.add("par_order_check")
        elif cls == "malformed":
            flat = sum(len(data[n]) for n in names[:ci]) + idx
            (s_, e_, x_) = data[nm][idx]
            vtxt = x_ if bed else bbgen.bits_f32(x_)
            # numbers too wide for the 32-bit coordinate whose LOW 32 bits are the line's own, valid coordinate: a parser that reads a
            # wider integer and narrows it would accept the line as if nothing were wrong
            wide = [f"{nm}\t{s_}\t{(1 << 32) + e_}\t{vtxt}", f"{nm}\t{(1 << 32) + s_}\t{e_}\t{vtxt}", f"{nm}\t{s_}\t{(1 << 40) + e_}\t{vtxt}",
                    f"{nm}\t{s_}\t{(1 << 64) + e_}\t{vtxt}"]
            bad = r.choice([f"{nm}\tabc\t10\t1", f"{nm}\t5", f"{nm}\t5\t-7\t1", f"{nm}\t5\t10\tnotanumber" if not bed else f"{nm}\t\t", f"{nm}"] + wide + wide)
            if bad in wide:
                tags.add("coordinate_wider_than_32_bits")
            raw_text = text_of(names, data, bed, (flat, bad))
        elif cls == "empty":
            data = {n: [] for n in names}
        lines = [bbgen.opt_line(o)] + [f"CHROM {n} {l}" for n, l in sizes.items()]
        for n in names:
            for (a, b, x2) in data[n]:
                lines.append(f"E {n} {a} {b} {hexs(x2)}" if bed else f"V {n} {a} {b} {x2}")
        if raw_text is not None:
            lines.append("TEXT " + hexs(raw_text))
        return CaseT(f"i{k}", "bed" if bed else "wig", [], lines, tags)

    def make_many(self, r, k, bed, cls, nch, pos, src, ps):
        names = [f"c{i:03d}" for i in range(nch)]
        sizes = {n: 300 + 10 * i for i, n in enumerate(names)}
        data = {}
        for n in names:
            a = r.range(0, 20)
            items = []
            for _ in range(r.range(1, 3)):
                ln = r.range(1, 20)
                items.append((a, a + ln, "x" if bed else f32bits(float(r.range(1, 5)))))
                a += ln + r.range(0, 9)
            data[n] = items
        rt = r.choice(["mt", "ct"])
        o = {"compress": r.choice([0, 1]), "ips": r.choice([1, 2, 1024]), "bs": r.choice([2, 256]),
             "zooms": r.choice(["auto", "none", "10"]), "pass": ps, "inmem": r.choice([0, 1]), "rt": rt,
             "threads": 1 if rt == "ct" else r.choice([1, 2, 4]), "chan": r.choice([0, 1, 3, 100]), "src": src, "sort": "all"}
        tags = {cls if cls != "overlap_or_order" else "out_of_order", f"src_{src}", f"pass_{ps}", "bed" if bed else "wig", f"chrom_{pos}_of_{nch}", "injected", "many_chroms", f"rt_{rt}"}
        if cls == "valid":
            tags = {"valid_many_chroms", f"src_{src}", f"pass_{ps}", "bed" if bed else "wig", f"rt_{rt}", f"chan_{o['chan']}", f"chroms_{nch}"}
        order = list(names)
        raw_text = None
        if cls == "chrom_order":
            if pos == 0:
                return None
            order[pos - 1], order[pos] = order[pos], order[pos - 1]        # chromosome `pos` comes one place too early
            tags.add("chrom_order")
            if src == "par":
                tags.add("par_order_check")
        elif cls == "unknown_chrom":
            del sizes[names[pos]]
        elif cls == "overlap_or_order":
            s0, e0, x0 = data[names[pos]][-1]
            if bed:
                data[names[pos]].append((max(0, s0 - 1), s0 + 2, x0))   # starts before its predecessor
                if s0 == 0:
                    return None
            else:
                data[names[pos]].append((e0 - 1, e0 + 3, x0))           # overlaps its predecessor
        elif cls == "not_grouped":
            # chromosome `pos` has a second run later in the file (or, for the last one, an earlier chromosome comes back):
            # refused in every sort mode — with chromosome order not required this is the only thing wrong with the input
            if nch < 3:
                return None
            back = names[pos] if pos < nch - 2 else names[0]
            a0 = data[back][-1][1] + 50
            extra = (back, [(a0, a0 + 5, "x" if bed else f32bits(1.0))])
            o["sort"] = r.choice(["start", "start", "all"])
            tags.add(f"sort_{o['sort']}")
            order = list(names) + [None]
        elif cls == "malformed":
            flat = sum(len(data[n]) for n in names[:pos])
            nm = names[pos]
            bad = r.choice([f"{nm}\tabc\t10\t1", f"{nm}\t5", f"{nm}\t5\t-7\t1", f"{nm}"])
            raw_text = text_of(names, data, bed, (flat, bad))
        lines = [bbgen.opt_line(o)] + [f"CHROM {n} {l}" for n, l in sizes.items()]
        for n in order:
            if n is None:
                n, rows = extra
            else:
                rows = data[n]
            for (a, b, x2) in rows:
                lines.append(f"E {n} {a} {b} {hexs(x2)}" if bed else f"V {n} {a} {b} {x2}")
        if raw_text is not None:
            lines.append("TEXT " + hexs(raw_text))
        return CaseT(f"m{k}", "bed" if bed else "wig", [], lines, tags)

    def degenerate(self, k, bed, variant, src, ps, zooms):
        sizes = {"chr1": 1000, "chr2": 500}
        v = f32bits(2.0)
        if variant == "zero_only":
            data = {"chr1": [(5, 5, v), (9, 9, v)]}
        elif variant == "one_item":
            data = {"chr1": [(5, 6, v)]}
        elif variant == "absent_chrom":
            data = {"chr2": [(5, 9, v), (20, 30, v)]}
        elif variant == "zero_mid":
            data = {"chr1": [(5, 9, v), (9, 9, v), (9, 12, v)], "chr2": [(7, 7, v), (8, 10, v)]}
        else:
            data = {"chr1": [(5, 9, v)], "chr2": [(7, 7, v)]}
        o = {"compress": 1, "ips": 2, "bs": 2, "zooms": zooms, "pass": ps, "inmem": 0, "rt": "mt", "threads": 2, "chan": 100,
             "src": src, "sort": "all"}
        lines = [bbgen.opt_line(o)] + [f"CHROM {n} {l}" for n, l in sizes.items()]
        for n in data:
            for (a, b, x) in data[n]:
                lines.append(f"E {n} {a} {b} -" if bed else f"V {n} {a} {b} {x}")
        return CaseT(f"d{k}", "bed" if bed else "wig", [], lines, {"valid_degenerate", variant, f"src_{src}", f"zooms_{zooms}", "bed" if bed else "wig"})

    def nontrivial(self, case, il):
        return "injected" in case.tags

    def compare(self, case, il, ml):
        if "malformed" in case.tags:
            return None                     # the model does not parse text; the oracle judges these
        a = il[0] if il else "R missing"
        b = ml[0] if ml else "R model-missing"
        if case.opts().get("src") in ("par", "parix") or case.tags & {"chrom_order", "not_grouped"}:
            # the parallel source raises the same refusals from up to five chromosomes ahead, so the class may
            # differ from the serial order of discovery; the property asks for an error value
            a, b = " ".join(a.split(" ")[:2]), " ".join(b.split(" ")[:2])
        return None if a == b else f"result: implementation `{a[:60]}` model `{b[:60]}`"

    def oracle(self, case, il):
        r = il[0] if il else "R missing"
        if r.startswith("R hang"):
            return "the write call did not return (hang)"
        if r.startswith("R panic") or r.startswith("R crashed"):
            return "the write call panicked"
        if "injected" in case.tags:
            if not r.startswith("R err"):
                return f"input with an injected {sorted(case.tags & set(WIG_CLASSES + BED_CLASSES))} violation was not refused: `{r}`"
            if bbgen.first_line(il, "OPEN") == "OPEN ok":
                return "a refused input left a file that the reader opens"
            return None
        if r != "R ok":
            return f"a valid (degenerate) input was refused: `{r}`"
        return None


PROP = C13()
