"""C11 — output bytes do not depend on threads, buffering or task timing."""
import os
import subprocess
from vlib import CaseT, repo_bin
from wbprop import WigBedProp, byte_level_check
import bbgen


class C11(WigBedProp):
    pid = "C11"
    impl_timeout = 60
    needs_repo_bins = True
    view_tags = ("R",)
    rule = ("for each of several multi-chromosome inputs (bigWig and bigBed) and format-option records (compression, items per "
            "slot, block size, zooms, pass mode) the file is written under a lattice of run-time configurations — threads "
            "1..16, current-thread / multi-thread runtime, channel size {0,1,100}, in-memory / temp-file buffering, iterator / "
            "file / parallel source — each under several seeded delay schedules injected at the pipeline's hand-off points "
            "(delay_point hooks); all byte images of a group must be identical to the reference (single thread, no delays). "
            "Plus 120 small text inputs (2–7 chromosomes of 1–3 lines whose lengths differ by 0, 1 or 2 bytes between neighbours) written from the serial and from the per-chromosome-parallel source. Converters: bigwigtobedgraph / bigbedtobed -t N vs -t 1. Non-trivial = a configuration with ≥ 2 threads and a "
            "non-zero delay schedule on an input with ≥ 2 chromosomes")
    removable = ()

    def cases(self, rng, tier):
        ninputs = 40 if tier == "thorough" else 6
        nsched = 25 if tier == "thorough" else 4
        out = []
        self.groups = {}
        for g in range(ninputs):
            r = rng.fork(g)
            bed = r.chance(1, 2)
            fmt = {"compress": r.choice([0, 1]), "ips": r.choice([1, 2, 7, 1024]), "bs": r.choice([2, 5, 256]),
                   "zooms": r.choice(["auto", "10,40", "none", "4,16,64"]), "pass": r.choice([1, 2])}
            if g % 3 == 0:
                # a group the byte-level Lean writer model applies to: its bytes must be the model's bytes as well
                bed = False
                fmt["compress"] = 0
                fmt["zooms"] = r.choice(["10,40", "none", "4,16,64"])
            if fmt["zooms"] == "auto":
                fmt["izs"] = r.choice([4, 10, 160])
            if bed:
                names, sizes, data, tags = bbgen.gen_bed_input(r, nchrom=r.choice([2, 3, 6, 8]), maxn=30)
                body = bbgen.bed_lines(names, sizes, data)
            else:
                names, sizes, data, tags = bbgen.gen_wig_input(r, nchrom=r.choice([2, 3, 6, 8]), value_mode="int" if g % 3 == 0 or g % 2 == 0 else "bits", maxn=40)
                body = bbgen.wig_lines(names, sizes, data)
            if g % 3 == 1:
                # large chromosomes: every per-chromosome writer spills its 8 KiB buffer several times, so the file can be
                # handed over in the MIDDLE of a chromosome's writes (the mid-stream path of the staging buffer)
                names = ["chrA", "chrB", "chrC", "chrD"][: r.choice([2, 3, 4])]
                sizes = {n: 400000 for n in names}
                if bed:
                    data = {n: [(i * 9, i * 9 + 5, "name%d\t%d" % (i, i % 1000)) for i in range(r.range(1500, 3000))] for n in names}
                    body = bbgen.bed_lines(names, sizes, data)
                else:
                    data = {n: [(i * 9, i * 9 + 4, bbgen.f32bits(float(1 + (i * 7919 + j) % 251))) for i in range(r.range(2500, 5000))]
                            for j, n in enumerate(names)}
                    body = bbgen.wig_lines(names, sizes, data)
                tags.add("chromosomes_spill_bufwriter")
                if g % 6 == 4:
                    # the destination is one whose write() takes part of a large buffer (it is the same for every configuration of
                    # the group), with sections larger than a BufWriter load: what reaches it directly and what reaches it
                    # through a staging buffer depends on the timing of the hand-over — the bytes must not
                    fmt.update({"compress": 0, "ips": 1024, "destmax": r.choice([1000, 4096])})
                    tags.add("destination_accepts_short_writes")
            configs = [{"threads": 1, "rt": "ct", "chan": 0, "inmem": 0, "src": "iter", "delay": 0}]
            lattice = []
            for th in ([1, 2, 3, 4, 8, 16] if tier == "thorough" else [1, 2, 4, 16]):
                for rt in ("ct", "mt"):
                    if rt == "ct" and th != 1:
                        continue
                    for ch in (0, 1, 100):
                        for im in (0, 1):
                            for src in ("iter", "file", "par"):
                                lattice.append({"threads": th, "rt": rt, "chan": ch, "inmem": im, "src": src})
            take = len(lattice) if tier == "thorough" else 24
            for _ in range(take):
                base = dict(lattice[r.below(len(lattice))]) if tier != "thorough" else dict(lattice[_])
                for s in range(nsched if tier != "thorough" else max(1, nsched // 6)):
                    cfg = dict(base)
                    cfg["delay"] = 0 if s == 0 else r.range(1, 1 << 30)
                    configs.append(cfg)
            for ci, cfg in enumerate(configs):
                o = dict(fmt)
                o.update(cfg)
                o["sort"] = "all"
                o["keep"] = 0
                t = {"bed" if bed else "wig", f"src={cfg['src']}", *([x for x in tags if x in ("chromosomes_spill_bufwriter", "destination_accepts_short_writes")]), f"rt={cfg['rt']}", f"chan={cfg['chan']}", f"inmem={cfg['inmem']}",
                     f"threads={cfg['threads']}", f"pass={fmt['pass']}"}
                if cfg["threads"] >= 2 and cfg["delay"] and len(names) >= 2:
                    t.add("nt")
                if cfg["delay"]:
                    t.add("delayed")
                cid = f"g{g}c{ci}"
                self.groups.setdefault(g, []).append(cid)
                out.append(CaseT(cid, "bed" if bed else "wig", [], [bbgen.opt_line(o)] + body, t))
        # serial versus per-chromosome-parallel PARSING on many small text inputs whose line lengths vary byte by byte (the
        # parallel source finds the chromosome runs by bisection over byte offsets; which line a probe lands on depends on them)
        for g in range(600 if tier == "thorough" else 120):
            r = rng.fork(f"small{g}")
            bed = r.chance(1, 2)
            nch = r.range(2, 7)
            tight = g % 4 != 0
            # tight: names of one length and coordinates of 1–3 digits, so neighbouring lines differ by 0, 1 or 2 bytes
            names = [f"c{i}" for i in sorted(r.below(10) for _ in range(20))[::3][:nch]] if tight else bbgen.pick_chroms(r, nch)
            names = sorted(set(names))
            sizes, data = {}, {}
            for nm in names:
                sizes[nm] = 2000000
                pos, items = (r.choice([0, 3, 7, 10, 42, 99, 100]) if tight else r.choice([0, 3, 10, 99, 100, 1000, 99999])), []
                for _ in range(r.choice([1, 1, 1, 2, 3])):
                    ln = r.choice([1, 5, 9, 10, 90] if tight else [1, 5, 9, 10, 90, 100, 1000])
                    items.append((pos, pos + ln, r.choice(["", "n", "nm1\t7"])) if bed else (pos, pos + ln, bbgen.f32bits(float(r.choice([1, 2, 10, 25, 100])))))
                    pos += ln + r.choice([0, 1, 9, 10, 900])
                data[nm] = items
            body = bbgen.bed_lines(names, sizes, data) if bed else bbgen.wig_lines(names, sizes, data)
            fmt = {"compress": r.choice([0, 1]), "ips": r.choice([1, 2, 1024]), "bs": r.choice([2, 256]), "zooms": r.choice(["10,40", "none"]), "pass": r.choice([1, 2])}
            for ci, cfg in enumerate(({"threads": 1, "rt": "ct", "chan": 0, "inmem": 0, "src": "iter", "delay": 0},
                                      {"threads": r.choice([1, 2, 4]), "rt": "mt", "chan": r.choice([0, 100]), "inmem": r.choice([0, 1]), "src": "parix", "delay": 0})):   # parix: the chromosome index comes from the real index_chroms
                o = dict(fmt)
                o.update(cfg)
                o["sort"] = "all"
                o["keep"] = 0
                cid = f"s{g}c{ci}"
                self.groups.setdefault(f"s{g}", []).append(cid)
                out.append(CaseT(cid, "bed" if bed else "wig", [], [bbgen.opt_line(o)] + body,
                                 {"bed" if bed else "wig", f"src={cfg['src']}", "small_text_input", f"pass={fmt['pass']}"}))
        return out

    def nontrivial(self, case, il):
        return "nt" in case.tags

    def oracle(self, case, il):
        r = il[0] if il else "R missing"
        if r != "R ok":
            return f"the writer did not accept a valid input or did not return: `{r[:60]}`"
        return None

    def extra_checks(self, rep, tier, rng, workdir):
        impl = self._last_impl
        cases = {c.id: c for c in self._last_cases}
        ngroups = 0
        dp = 0
        for g, ids in getattr(self, "groups", {}).items():
            ref = bbgen.first_line(impl.get(ids[0], []), "BYTES")
            ngroups += 1
            for cid in ids:
                il = impl.get(cid, [])
                b = bbgen.first_line(il, "BYTES")
                d = bbgen.first_line(il, "DELAYPOINTS")
                dp += int(d.split(" ")[1]) if d else 0
                if b != ref and not any("bytes_differ" in v[0] for v in rep.violations):
                    rep.violation(f"bytes_differ_{cid}.case", cases[ids[0]].text() + cases[cid].text() +
                                  f"# the two configurations above (same input and format options) produced different bytes: reference `{ref}`, this one `{b}`\n"
                                  f"# replay: ./check C11 --replay runs both cases; compare their BYTES lines\n")
        rep.coverage["groups_compared"] = ngroups
        byte_level_check(self, rep, workdir)          # the reference bytes are also the Lean writer model's bytes, where it applies
        rep.coverage["delay_points_passed"] = dp
        # converters: -t N text = -t 1 text
        d = os.path.join(workdir, "cli")
        os.makedirs(d, exist_ok=True)
        nconv = 0
        for k in range(6 if tier == "thorough" else 2):
            r = rng.fork(k)
            # values: small integers / arbitrary finite f32 patterns, and a few non-finite ones (legal in a bigWig; the
            # statement asks for the same text whatever the values are)
            names, sizes, data, _ = bbgen.gen_wig_input(r, nchrom=5, value_mode="int" if k % 2 == 0 else "bits", maxn=60)
            # every other file: chromosomes in an order that is not the byte order of their names (written with -s start):
            # the converters must keep the FILE's chromosome order for every thread count
            free_order = (k % 2 == 1)
            sflag = ["-s", "start"] if free_order else []
            if free_order:
                names = sorted(names, reverse=True)
                names = names[1:] + names[:1]
            special = {}
            for n in names:
                for i in range(len(data[n])):
                    if r.chance(1, 9):
                        special[(n, i)] = r.choice(["nan", "inf", "-inf", "-0.0", "1e-42"])
            sz = os.path.join(d, f"s{k}.sizes")
            with open(sz, "w") as f:
                for n in sizes:
                    f.write(f"{n}\t{sizes[n]}\n")
            bg = os.path.join(d, f"i{k}.bedGraph")
            with open(bg, "w") as f:
                for n in names:
                    for i, (s, e, b) in enumerate(data[n]):
                        f.write(f"{n}\t{s}\t{e}\t{special.get((n, i), bbgen.bits_f32(b))}\n")
            bw = os.path.join(d, f"i{k}.bw")
            subprocess.run([repo_bin("bedgraphtobigwig"), bg, sz, bw] + sflag, capture_output=True)
            bnames, bsizes, bdata, _ = bbgen.gen_bed_input(r, nchrom=5, maxn=40)
            if free_order:
                bnames = sorted(bnames, reverse=True)
                bnames = bnames[1:] + bnames[:1]
            bsz = os.path.join(d, f"b{k}.sizes")
            with open(bsz, "w") as f:
                for n in bsizes:
                    f.write(f"{n}\t{bsizes[n]}\n")
            bedp = os.path.join(d, f"i{k}.bed")
            with open(bedp, "w") as f:
                for n in bnames:
                    for (s, e, rest) in bdata[n]:
                        f.write(f"{n}\t{s}\t{e}" + (f"\t{rest}" if rest else "") + "\n")
            bb = os.path.join(d, f"i{k}.bb")
            subprocess.run([repo_bin("bedtobigbed"), bedp, bsz, bb] + sflag, capture_output=True)
            for tool, src in (("bigwigtobedgraph", bw), ("bigbedtobed", bb)):
                if not os.path.exists(src):
                    rep.notes.append(f"{tool}: input file could not be prepared")
                    continue
                ref = None
                for t in (1, 2, 3, 8, 16):
                    outp = os.path.join(d, f"{tool}{k}_t{t}.txt")
                    p = subprocess.run([repo_bin(tool), src, outp, "-t", str(t)], capture_output=True, text=True, timeout=120)
                    txt = open(outp).read() if os.path.exists(outp) else None
                    nconv += 1
                    if t == 1:
                        ref = txt
                    elif txt != ref and not any("converter" in v[0] for v in rep.violations):
                        rep.violation(f"converter_{tool}_{k}_t{t}.txt",
                                      f"# {tool} -t {t} emits different text from -t 1\n# input: {src}\n# -t 1: {len(ref or '')} bytes, -t {t}: {len(txt or '')} bytes; stderr: {p.stderr[-200:]}\n")
        # files whose records reach PAST the chromosome size written in their chromosome tree (a bigBed entry may legally do so; a
        # bigWig from another writer may): whatever each converter does with the overshoot, it must do the same for every thread count
        import bbi_codec
        for kind in ("bigwig", "bigbed"):
            chroms = [["chr1", 500], ["chr10", 300], ["chr2", 400]]
            if kind == "bigwig":
                secs = [dict(chrom=0, type=1, items=[[10, 20, 1.0], [450, 600, 3.0], [600, 700, 4.0]]),
                        dict(chrom=1, type=1, items=[[0, 5, 2.0], [290, 310, 5.0]]), dict(chrom=2, type=1, items=[[5, 50, 7.0]])]
            else:
                secs = [dict(chrom=0, items=[[10, 20, b"a"], [450, 600, b"b"], [480, 900, b"c"]]),
                        dict(chrom=1, items=[[0, 5, b"d"], [290, 310, b"e"]]), dict(chrom=2, items=[[5, 50, b"f"]])]
            spec = dict(endian="little", version=4, compress=True, chroms=chroms, sections=secs, chrom_block_size=256, rtree_block_size=256,
                        rtree_layout="level_order", items_per_slot=1024, zooms=[])
            try:
                img = bbi_codec.encode_bigwig(spec) if kind == "bigwig" else bbi_codec.encode_bigbed(spec)
            except Exception as e_:                           # noqa
                rep.notes.append(f"overshoot file ({kind}) could not be encoded: {e_}")
                continue
            src = os.path.join(d, "overshoot." + ("bw" if kind == "bigwig" else "bb"))
            open(src, "wb").write(img)
            tool = "bigwigtobedgraph" if kind == "bigwig" else "bigbedtobed"
            ref = None
            for t in (1, 2, 4):
                outp = os.path.join(d, f"{tool}_overshoot_t{t}.txt")
                p = subprocess.run([repo_bin(tool), src, outp, "-t", str(t)], capture_output=True, text=True, timeout=120)
                txt = open(outp).read() if os.path.exists(outp) else None
                nconv += 1
                rep.tag("converter_input_reaching_past_the_chromosome_size")
                if t == 1:
                    ref = txt
                elif txt != ref and not any("converter" in v[0] for v in rep.violations):
                    rep.violation(f"converter_{tool}_overshoot_t{t}.txt",
                                  f"# {tool} -t {t} emits different text from -t 1 on a file whose records reach past the chromosome size in its chromosome tree\n"
                                  f"# input: {src}\n# -t 1: {ref!r}\n# -t {t}: {txt!r}\n# stderr: {p.stderr[-200:]}\n")
        rep.coverage["converter_runs"] = nconv
        rep.evals += nconv


PROP = C11()
