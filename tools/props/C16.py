"""C16 — command-line conversions round-trip records for any thread count and flag style."""
import os
import struct
import subprocess
from vlib import Prop, CaseT, repo_bin, run_impl, hexs
import bbgen

UCSC = ["-unc", "-blockSize=5", "-blockSize=256", "-chrom=chr1", "-start=5", "-end=90", "-chroms=a", "-itemsPerSlot=7",
        "-zooms=10,40", "-as=x.as", "-tab", "-minMax", "-adjust=2", "-clip=3", "-threshold=1", "-bed=x.bed"]
NATIVE = ["--uncompressed", "--block-size", "5", "--chrom", "chr1", "-t", "4", "--start=5", "in.bedGraph", "out.bw", "chrom.sizes",
          "--parallel", "yes", "--single-pass", "--inmemory", "--zooms", "10", "40", "-chromosome", "x-chrom=1", "--", "-"]
PROGS = ["bedgraphtobigwig", "bedGraphToBigWig", "/usr/bin/bedtobigbed", "bigbedtobed", "bigWigToBedGraph", "bigwiginfo",
         "bigwigaverageoverbed", "bigbedinfo", "bigwigvaluesoverbed", "bigtools", "/opt/x/BigTools", "./bigtools"]
SUBS = ["bedgraphtobigwig", "bedGraphToBigWig", "bedtobigbed", "bigbedtobed", "bigwigtobedgraph", "bigwiginfo", "bigbedinfo", "-V", "help"]


class C16(Prop):
    pid = "C16"
    needs_repo_bins = True
    rule = ("(1) argument rewriting: seeded argument vectors (program name as converter or as `bigtools <sub>`, mixed case, UCSC "
            "spellings, native flags, file names, prefix hazards such as -chrom / -chroms) through the real compat_args vs the "
            "model; (2) the built binaries: canonical multi-chromosome bedGraph / BED texts → bigWig / bigBed → text, over -t 1..16, "
            "--parallel auto|yes|no, --single-pass, --inmemory, --uncompressed / -unc, --block-size / -blockSize=, --zooms, "
            "multicall `bigtools <sub>`, and restricted output (--chrom/--start/--end and -chrom= -start= -end=) compared with the "
            "range query of the real reader; plus round trips of files with chromosomes of 25,000–70,000 records (each worker hands its output over in the middle of its writes) for -t 1, 2, 6 and --inmemory. Non-trivial = a vector containing at least one UCSC spelling, or a conversion with "
            "≥ 2 threads or a restricted range")
    removable = ("ARG",)

    def cases(self, rng, tier):
        n = 3000 if tier == "thorough" else 500
        out = []
        for k in range(n):
            r = rng.fork(k)
            prog = r.choice(PROGS)
            args = [prog]
            if prog.lower().endswith("bigtools"):
                args.append(r.choice(SUBS))
            tags = set()
            for _ in range(r.range(0, 6)):
                if r.chance(1, 2):
                    a = r.choice(UCSC)
                    tags.add("ucsc")
                else:
                    a = r.choice(NATIVE)
                args.append(a)
            out.append(CaseT(f"c{k}", "compat", [], ["ARG " + hexs(a) for a in args], tags))
        return out

    def nontrivial(self, case, il):
        return "ucsc" in case.tags

    def view(self, lines):
        # an "unimplemented" UCSC flag panics by design in both (`R panic …` carries the message only on one side)
        return [("R panic" if l.startswith("R panic") else l) for l in lines]

    def oracle(self, case, il):
        if any(l.startswith(("R hang", "R crashed")) for l in il):
            return "compat_args did not return"
        return None

    # ---------------------------------------------------------------------------------------------
    def extra_checks(self, rep, tier, rng, workdir):
        d = os.path.join(workdir, "cli")
        os.makedirs(d, exist_ok=True)
        nconv = 40 if tier == "thorough" else 10
        runs = 0
        readcases = []
        expect = {}
        for k in range(nconv):
            r = rng.fork(k)
            bed = r.chance(1, 2)
            if bed:
                names, sizes, data, _ = bbgen.gen_bed_input(r, nchrom=r.choice([2, 3, 5]), maxn=20)
            else:
                names, sizes, data, _ = bbgen.gen_wig_input(r, nchrom=r.choice([2, 3, 5]), value_mode="int", maxn=25)
            sz = os.path.join(d, f"s{k}.sizes")
            with open(sz, "w") as f:
                for n in sizes:
                    f.write(f"{n}\t{sizes[n]}\n")
            src = os.path.join(d, f"in{k}." + ("bed" if bed else "bedGraph"))
            recs = []
            with open(src, "w") as f:
                for n in names:
                    for (s, e, x) in data[n]:
                        if bed:
                            f.write(f"{n}\t{s}\t{e}" + (f"\t{x}" if x else "") + "\n")
                            recs.append((n, s, e, x))
                        else:
                            v = bbgen.bits_f32(x)
                            txt = f"{v}"
                            if k % 3 == 2 and (s + e) % 3 == 0:
                                # values that are infinite at single precision (legal in a bigWig): they come back as inf / -inf
                                txt = ["inf", "-inf", "1e39", "-4e38"][(s + e) // 3 % 4]
                                v = float("-inf") if txt.startswith("-") else float("inf")
                                rep.tag("value_infinite_at_single_precision")
                            if k % 3 == 1 and (s + e) % 2 == 0:
                                # a value written with dozens of digits, next to the midpoint of two single-precision numbers: the
                                # value that must come back is the single nearest to the DECIMAL text
                                hb, txt = bbgen.halfway_decimal(r)
                                v = bbgen.bits_f32(f"{hb:08x}")
                                rep.tag("value_text_with_30_or_more_digits")
                            f.write(f"{n}\t{s}\t{e}\t{txt}\n")
                            recs.append((n, s, e, v))
            to_tool, from_tool = ("bedtobigbed", "bigbedtobed") if bed else ("bedgraphtobigwig", "bigwigtobedgraph")
            variants = []
            for t in ([1, 2, 3, 4, 8, 16] if tier == "thorough" else [1, 2, 16]):
                variants.append(["-t", str(t)])
            variants += [["--parallel", "no"], ["--parallel", "yes", "-t", "4"], ["--parallel", "auto"], ["--single-pass"], ["--inmemory"],
                         ["--uncompressed"], ["-unc"], ["--block-size", "5"], ["-blockSize=5"], ["--zooms", "10", "40"],
                         ["--single-pass", "--inmemory", "-t", "3", "-unc"], ["MULTICALL"]]
            if tier != "thorough":
                must = (["MULTICALL"], ["--parallel", "yes", "-t", "4"], ["-unc"])
                variants = [variants[i] for i in range(len(variants)) if (i + k) % 3 == 0 or variants[i] in must]
            for vi, flags in enumerate(variants):
                outb = os.path.join(d, f"o{k}_{vi}." + ("bb" if bed else "bw"))
                if flags == ["MULTICALL"]:
                    cmd = [repo_bin("bigtools"), to_tool, src, sz, outb]
                else:
                    # `--zooms` is greedy: flags go after the positional arguments
                    cmd = [repo_bin(to_tool), src, sz, outb] + flags
                p = subprocess.run(cmd, capture_output=True, text=True, timeout=120)
                runs += 1
                back = outb + ".txt"
                ft = ["-t", str(r.choice([1, 2, 8]))]
                if (k + vi) % 3 == 0:
                    # the output path already exists and is LONGER than what this run writes (a second conversion into the same
                    # name): the result must be this run's records only
                    with open(back, "w") as jf:
                        jf.write("leftover\t1\t2\tfrom an earlier run\n" * 3000)
                    rep.tag("output_file_existed_and_was_longer")
                p2 = subprocess.run([repo_bin(from_tool), outb, back] + ft, capture_output=True, text=True, timeout=120)
                runs += 1
                got = self.parse_text(back, bed)
                if got != recs:
                    why = f"exit {p.returncode}/{p2.returncode}; {p.stderr.strip()[-150:]} {p2.stderr.strip()[-150:]}"
                    diff = next(((g, w) for g, w in zip((got or []) + [None] * len(recs), recs + [None] * len(got or [])) if g != w), None)
                    if not any("roundtrip" in v[0] for v in rep.violations):
                        rep.violation(f"roundtrip_{k}_{vi}.txt",
                                      f"# {to_tool} {' '.join(flags)} then {from_tool} {' '.join(ft)} does not return the original records\n"
                                      f"# command: {' '.join(cmd)}\n# first difference (got, expected): {diff}; {why}\n# input file: {open(src).read()[:1500]}\n")
                rep.tag("flags_" + "_".join(flags).replace("-", ""))
            # restricted output = the reader's range query
            outb = os.path.join(d, f"o{k}_0." + ("bb" if bed else "bw"))
            if not os.path.exists(outb):
                continue
            for qi in range(5):
                nm = r.choice(names)
                pts = bbgen.boundary_points(data[nm], sizes[nm])
                a, b = r.choice(pts), r.choice(pts)
                if a > b:
                    a, b = b, a
                if a == b:
                    continue
                # both bounds, one-sided restrictions (the other bound defaults to 0 / the chromosome length), chromosome only
                shape = (qi + k) % 5
                if shape == 2:
                    b = sizes[nm]
                    style = ["--chrom", nm, "--start", str(a)]
                elif shape == 3:
                    a = 0
                    style = [f"-chrom={nm}", f"-end={b}"]
                elif shape == 4:
                    a, b = 0, sizes[nm]
                    style = ["--chrom", nm]
                else:
                    style = [["--chrom", nm, "--start", str(a), "--end", str(b)], [f"-chrom={nm}", f"-start={a}", f"-end={b}"]][qi % 2]
                if a >= b:
                    continue
                back = os.path.join(d, f"r{k}_{qi}.txt")
                subprocess.run([repo_bin(from_tool), outb, back] + style, capture_output=True, text=True, timeout=120)
                runs += 1
                cid = f"rq{k}_{qi}"
                readcases.append(CaseT(cid, "readbed" if bed else "readwig", [], [f"FILE {outb}", f"Q iv {nm} {a} {b}"]))
                expect[cid] = (back, bed, nm, style)
        # large chromosomes: every per-chromosome worker of the converters produces far more than one 8 KiB buffer of text
        # (or of sections), so its output is handed over in the MIDDLE of its writes — for every thread count
        for big, bed in enumerate((False, True, False, True)):
            # big 0/1: few large chromosomes; big 2/3: 300 small chromosomes with default options (more data sections than
            # the index's fan-out: its upper level spans chromosome boundaries)
            nrec = {"chrA": 25000, "chrB": 70000, "chrC": 400, "chrD": 30000} if big < 2 else {f"contig_{i:04d}": 2 + i % 3 for i in range(300)}
            src = os.path.join(d, f"big{big}." + ("bed" if bed else "bedGraph"))
            sz = os.path.join(d, f"big{big}.sizes")
            recs = []
            with open(src, "w") as f:
                for nm, n in nrec.items():
                    for i in range(n):
                        if bed:
                            rec = (nm, 7 * i, 7 * i + 5 + (i % 3), f"n{i}\t{i % 1000}\t{'+-'[i % 2]}")
                            f.write(f"{rec[0]}\t{rec[1]}\t{rec[2]}\t{rec[3]}\n")
                        else:
                            rec = (nm, 7 * i, 7 * i + 5, float(1 + (i * 31) % 97) / 4)
                            f.write(f"{rec[0]}\t{rec[1]}\t{rec[2]}\t{rec[3]}\n")
                        recs.append(rec)
            open(sz, "w").write("".join(f"{nm}\t{7 * n + 100}\n" for nm, n in nrec.items()))
            to_tool, from_tool = ("bedtobigbed", "bigbedtobed") if bed else ("bedgraphtobigwig", "bigwigtobedgraph")
            for wi, wflags in enumerate((["-t", "1"], ["-t", "4", "--parallel", "yes"])):
                outb = os.path.join(d, f"big{big}_{wi}." + ("bb" if bed else "bw"))
                p = subprocess.run([repo_bin(to_tool), src, sz, outb] + wflags, capture_output=True, text=True, timeout=300)
                runs += 1
                for rflags in (["-t", "1"], ["-t", "2"], ["-t", "6"], ["-t", "4", "--inmemory"], ["--chrom", list(nrec)[len(nrec) // 2]]):
                    if wi == 1 and rflags != ["-t", "6"]:
                        continue
                    if rflags[0] == "--chrom":
                        want_recs = [x for x in recs if x[0] == rflags[1]]
                    else:
                        want_recs = recs
                    back = outb + "." + "_".join(rflags).replace("-", "") + ".txt"
                    p2 = subprocess.run([repo_bin(from_tool), outb, back] + rflags, capture_output=True, text=True, timeout=300)
                    runs += 1
                    got = self.parse_text(back, bed)
                    if got != want_recs and not any("roundtrip_big" in v[0] for v in rep.violations):
                        diff = next(((i, g, w) for i, (g, w) in enumerate(zip((got or []) + [None] * len(want_recs), want_recs + [None] * len(got or []))) if g != w), None)
                        rep.violation(f"roundtrip_big{big}_{wi}.txt",
                                      f"# {to_tool} {' '.join(wflags)} then {from_tool} {' '.join(rflags)} on chromosomes of {dict(list(nrec.items())[:4])}… records does not return the "
                                      f"original records: {len(got or [])} of {len(want_recs)} records; first difference (index, got, expected): {diff}; "
                                      f"exit {p.returncode}/{p2.returncode} {p.stderr.strip()[-150:]} {p2.stderr.strip()[-150:]}\n")
                    rep.tag("large_chromosomes_" + "_".join(wflags + rflags).replace("-", ""))
        ri = run_impl(readcases, os.path.join(d, "rq"))
        for c in readcases:
            back, bed, nm, style = expect[c.id]
            a = bbgen.answer_lines(ri.get(c.id, [])).get(0, "")
            want = [(nm, s, e, (bbgen.bits_f32(x) if not bed else (bytes.fromhex(x).decode() if x != "-" else "")))
                    for (s, e, x) in bbgen.parse_iv(a)] if a.startswith("A 0 ok") else None
            got = self.parse_text(back, bed)
            if want is None or got != want:
                if not any("restricted" in v[0] for v in rep.violations):
                    rep.violation(f"restricted_{c.id}.txt",
                                  f"# restricted output {' '.join(style)} differs from the reader's range query on the same file\n"
                                  f"# tool: {got}\n# range query: {want}\n")
        rep.coverage["cli_runs"] = runs
        rep.evals += runs

    @staticmethod
    def parse_text(path, bed):
        if not os.path.exists(path):
            return None
        out = []
        for ln in open(path, errors="replace").read().splitlines():
            t = ln.split("\t")
            try:
                if bed:
                    out.append((t[0], int(t[1]), int(t[2]), "\t".join(t[3:])))
                else:
                    dv = float(t[3])
                    fv = struct.unpack("f", struct.pack("f", dv))[0]                 # the single the text denotes
                    if fv != fv or (abs(fv) == float("inf")) != (abs(dv) == float("inf")):
                        # a finite text for an infinite value (or NaN): not the number that is stored
                        out.append((t[0], int(t[1]), int(t[2]), "text `%s` for a value that is %r at single precision" % (t[3], fv)))
                    else:
                        out.append((t[0], int(t[1]), int(t[2]), fv))
            except (ValueError, IndexError, OverflowError):
                out.append(("<line that is not a record>", ln[:80]))
        return out


PROP = C16()
