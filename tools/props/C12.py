"""C12 — the staging buffer delivers every byte once, in order, under every interleaving."""
import itertools
from vlib import Prop, CaseT, unhex
import bbgen
from props import C01 as c01


def merges(a, b):
    """all interleavings of sequences a and b that keep each one's order"""
    if not a:
        yield list(b)
        return
    if not b:
        yield list(a)
        return
    for m in merges(a[1:], b):
        yield [a[0]] + m
    for m in merges(a, b[1:]):
        yield [b[0]] + m


PROGRAMS = [["S", "A"], ["R", "S", "A"], ["S", "R", "A"], ["X"], ["R", "X"], ["L"], ["R", "L"], ["R", "R"], ["S", "R"]]


class C12(Prop):
    pid = "C12"
    rule = ("exhaustive: producer histories of 0..n writes (quick: n = 3, sizes from {0,1,3}; thorough: n = 4, sizes from {0,1,2,5}) then drop, "
            "interleaved in every order-preserving way with every consumer program of the list "
            "(switch→await, readiness polls, len, expect_closed_write), both staging modes, real destinations that take everything or only 1 / 2 / 1000 bytes per write call, at the granularity of "
            "the public calls (await/len/expect run on a helper thread and must stay blocked until the drop); "
            "plus the staging buffers where the writers use them (per-chromosome data and zoom buffers redirected, awaited and taken back), on "
            "current-thread / 1 / 2 / 8-worker executors × single / two pass × in-memory / temp-file staging, read back in full; "
            "non-trivial = the consumer's switch or blocking call lands before the producer's drop with at least one write")
    impl_timeout = 15
    removable = ()

    def cases(self, rng, tier):
        n = 4 if tier == "thorough" else 3
        sizes = [0, 1, 2, 5] if tier == "thorough" else [0, 1, 3]
        out = []
        k = 0
        for nw in range(n + 1):
            for szs in itertools.product(sizes, repeat=nw):
                prod, b = [], 1
                for s in szs:
                    data = bytes(((b + i) % 251) + 1 for i in range(s))
                    b += s
                    prod.append("W:" + (data.hex() if data else "-"))
                prod.append("D")
                for prog in PROGRAMS:
                    for m in merges(prod, prog):
                        for inmem in (0, 1):
                            if tier != "thorough" and inmem == 0 and (k % 3):
                                k += 1
                                continue
                            # every fourth schedule: a real destination whose write() accepts only 1 or 2 bytes per call
                            dm = f" destmax={1 + (k // 4) % 2}" if (k // 2) % 2 == 0 else ""       # both staging modes (k alternates them)
                            c = CaseT(f"tb{k}", "tempbuf", [], [f"OPT inmem={inmem} d0=aa55{dm}", "SCHED " + " ".join(m)])
                            if dm:
                                c.tags.add("destination_accepts_short_writes")
                            if nw and any(t in m[: m.index("D")] for t in ("S", "A", "X", "L")):
                                c.tags.add("consumer_before_drop")
                            c.tags.add("prog_" + "".join(prog))
                            c.tags.add("inmem" if inmem else "tempfile")
                            out.append(c)
                            k += 1
        # large writes: staged data well beyond any internal buffer (temp-file copy in chunks), switch at every position
        big = bytes((i * 131 + 7) % 251 for i in range(70000))
        for nw in (1, 2, 3):
            parts = [big[: 20000], big[20000: 20001], big[20001:]][:nw]
            prod = ["W:" + p.hex() for p in parts] + ["D"]
            for prog in (["S", "A"], ["X"], ["L"]):
                for m in merges(prod, prog):
                    for inmem in (0, 1):
                        dm = " destmax=1000" if (k // 2) % 2 == 0 else ""
                        c = CaseT(f"tb{k}", "tempbuf", [], [f"OPT inmem={inmem} d0=aa55{dm}", "SCHED " + " ".join(m)])
                        if dm:
                            c.tags.add("destination_accepts_short_writes")
                        c.tags |= {"large_writes", "prog_" + "".join(prog), "inmem" if inmem else "tempfile", "consumer_before_drop"}
                        out.append(c)
                        k += 1
        # more than 2^32 bytes staged in memory (a zoom level of a large file is staged in one buffer): the reported length is the
        # number of bytes written, not its low 32 bits. Thorough tier only: the case holds 4 GiB in memory for a few seconds.
        if tier == "thorough":
            self.impl_timeout = self.sub_timeout = 90      # writing 4 GiB into a vector takes ten seconds on an idle machine
            import vlib
            vlib.MEM_LIMIT_GIB[0] = 24                     # … and the vector's last doubling needs room
            c = CaseT(f"tbhuge{k}", "tempbuf", [], ["OPT inmem=1 d0=aa55", f"SCHED WN:{(1 << 32) + 4101} D L"])
            c.tags |= {"staged_more_than_4GiB", "inmem", "prog_L", "no_shrink"}      # every shrink candidate would hold 4 GiB
            out.append(c)
            k += 1
        # the staging buffers where the writers use them: per chromosome the data (and every zoom level) is staged while the
        # previous chromosome is spliced into the file; the consumer redirects, waits for the producer and takes the file
        # back. Every executor flavour (also a SINGLE executor thread, where a consumer that blocks before the producer has
        # run never returns), both pass modes, both staging modes, chromosomes from a few bytes to several BufWriter loads
        for g in range(10 if tier == "thorough" else 3):
            r = rng.fork(f"pipe{g}")
            names = ["chrA", "chrB", "chrC", "chrD"][: r.choice([2, 3, 4])]
            sizes = {n: 400000 for n in names}
            data = {n: [(i * 9, i * 9 + 4, bbgen.f32bits(float(1 + (i * 31 + j) % 17))) for i in range(r.choice([1, 3, 40, 1200, 4000]))]
                    for j, n in enumerate(names)}
            body = bbgen.wig_lines(names, sizes, data) + [f"Q iv {n} 0 {sizes[n]}" for n in names]
            for rt, th in (("ct", 1), ("mt", 1), ("mt", 2), ("mt", 8)):
                for ps in (1, 2):
                    for inmem in (0, 1):
                        o = {"compress": r.choice([0, 1]), "ips": r.choice([2, 1024]), "bs": r.choice([2, 256]), "zooms": r.choice(["10,40", "none", "auto"]),
                             "pass": ps, "inmem": inmem, "rt": rt, "threads": th, "chan": r.choice([0, 1, 100]), "src": "iter", "sort": "all"}
                        c = CaseT(f"pipe{k}", "wig", [], [bbgen.opt_line(o)] + body,
                                  {"write_pipeline", f"rt={rt}{th}", f"pass={ps}", "inmem" if inmem else "tempfile", "consumer_before_drop"})
                        out.append(c)
                        k += 1
        return out

    def model_extra(self, case, il):
        return c01.PROP.model_extra(case, il) if case.kind == "wig" else []

    def compare(self, case, il, ml):
        if "staged_more_than_4GiB" in case.tags:
            return None                       # the model driver does not materialise 2^32 bytes; judged by the oracle
        return c01.PROP.compare(case, il, ml) if case.kind == "wig" else super().compare(case, il, ml)

    def nontrivial(self, case, impl_lines):
        return "consumer_before_drop" in case.tags

    def oracle(self, case, il):
        if case.kind == "wig":
            r = il[0] if il else "R missing"
            if r.startswith("R hang"):
                return "write pipeline: the write call did not return — a wait for a staged buffer's producer never ended"
            return c01.PROP.oracle(case, il)
        sched = case.records("SCHED")[0][1:]
        d0 = unhex(case.opts().get("d0", "-"))
        written = b"".join(unhex(t[2:]) for t in sched if t.startswith("W:"))
        wn = sum(int(t[3:]) for t in sched if t.startswith("WN:"))
        if any(l.startswith("R panic") for l in il):
            return "panic in the staging buffer"
        if any(l.startswith("R hang") or l.startswith("R crashed") for l in il):
            return "the staging buffer call sequence did not return"
        rdy = [l for l in il if l.startswith("RDY")]
        want_rdy = []
        dropped = False
        for t in sched:
            if t == "D":
                dropped = True
            if t == "R":
                want_rdy.append("RDY 1" if dropped else "RDY 0")
        if rdy != want_rdy:
            return f"readiness polls {rdy} but the producer's drop implies {want_rdy}"
        if "EARLY 1" in il:
            return "a blocking consumer call returned before the producer was dropped"
        fin = [l for l in il if l.startswith("DEST") or l.startswith("LEN")]
        if "A" in sched or "X" in sched:
            want = "DEST " + ((d0 + written).hex() or "-")
            if fin != [want]:
                return f"destination is `{fin}` but the written bytes are `{want}`"
        if "L" in sched:
            if fin != [f"LEN {len(written) + wn}"]:
                return f"reported length {fin}, bytes written {len(written) + wn}"
        return None


PROP = C12()
