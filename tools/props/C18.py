"""C18 — slicing a text input for parallel work loses nothing and reorders nothing."""
import itertools
from vlib import Prop, CaseT, unhex

FILE12 = b"0123456789ab"
OPS = ["read 0", "read 1", "read 3", "read 100",
       "seek start 0", "seek start 2", "seek start 100",
       "seek cur -100", "seek cur -1", "seek cur 0", "seek cur 1", "seek cur 100",
       "seek end -100", "seek end -12", "seek end -1", "seek end 0", "seek end 1"]


def line_text(chrom, pad, k, ch="x"):
    s = f"{chrom}\t{k}\t{k + 1}"
    if pad:
        s += "\t" + ch * pad
    return s


def make_file(runs, pads, final_nl, ch="x", eol="\n"):
    """runs: list of run lengths; pads: per-line pad sizes -> (text, expected index)"""
    names = ["chrA", "chrB", "c", "chrDD", "e5"]
    if ch == "S":
        # the shortest lines a three-column BED can have (one-character names, one-digit coordinates: 6 bytes) on EVERY chromosome
        names, ch = ["1", "X", "c", "7", "e"], "x"
    lines, want, off, k = [], [], 0, 0
    text = ""
    for ci, rl in enumerate(runs):
        for j in range(rl):
            if j == 0:
                want.append((len(text), names[ci]))
            text += line_text(names[ci], pads[k], j, ch) + eol
            k += 1
    if not final_nl:
        text = text[:-len(eol)]
    return text, want


class C18(Prop):
    pid = "C18"
    rule = ("FileView: a 12-byte file, windows [a,b) over {0,3,5,12,15}², every operation sequence of length ≤ 2 over 17 "
            "operations plus seeded sequences of length 3..6; chunker: every file of the index family, chunk counts "
            "1..lines+2; indexer: exhaustive grouped files (1–4 chromosomes × 1–3 lines each) × line-length patterns "
            "(all short; one long line of ≈½ or ≈¾ of the file at every position) × final newline on/off. "
            "Parallel path: 60 small inputs that are NOT grouped (a run of one chromosome moved into or behind another's), written through "
            "the real indexer + per-chromosome readers AND through the serial file source: refused by both, or the same file from both. "
            "Non-trivial = a view window that is a proper sub-range with at least one seek, a file with ≥ 2 lines for "
            "the chunker, ≥ 2 chromosomes for the indexer")
    removable = ("OP",)

    def cases(self, rng, tier):
        out = []
        k = 0
        # --- FileView
        wins = [(a, b) for a in (0, 3, 5, 12) for b in (0, 3, 5, 9, 12, 15) if a <= b]
        seqs = [[o] for o in OPS] + [[a, b] for a in OPS for b in OPS]
        nrand = 4000 if tier == "thorough" else 600
        for _ in range(nrand):
            seqs.append([rng.choice(OPS) for _ in range(rng.range(3, 6))])
        for (a, b) in wins:
            for s in seqs:
                if tier != "thorough" and len(s) == 2 and rng.chance(1, 2):
                    continue
                c = CaseT(f"fv{k}", "fileview", [a, b], ["TEXT " + FILE12.hex()] + ["OP " + o for o in s])
                c.tags.add("fileview")
                if (a, b) != (0, 12) and any(o.startswith("seek") for o in s):
                    c.tags.add("nt")
                out.append(c)
                k += 1
        # views of more than 4 GiB (a sparse file: the 12 bytes with a hole of 2^32 … 2^33 zero bytes in the middle)
        G = 1 << 32
        for hl in (G, G + 0x1234, 2 * G):
            for (a, b) in ((0, hl + 12), (3, hl + 10), (5, hl + 6), (hl + 7, hl + 11), (2, G + 2)):
                for ops in (["read 1", "read 3", "read 100"], ["seek start 2", "read 3", "seek end -3", "read 100"],
                            ["seek start %d" % (b - a - 2), "read 3", "seek cur -%d" % G, "read 2"], ["read 3", "seek cur %d" % G, "read 100", "seek start 1", "read 1"],
                            ["seek end -1", "read 1", "read 1", "seek start 0", "read 6"]):
                    c = CaseT(f"fv{k}", "fileview", [a, b], ["TEXT " + FILE12.hex(), f"HOLE 6 {hl}"] + ["OP " + o for o in ops])
                    c.tags |= {"fileview", "view_over_4GiB", "nt"}
                    out.append(c)
                    k += 1
        # --- indexer + chunker files
        maxrun = 3
        nchrom = 4 if tier == "thorough" else 3
        files = []
        for nc in range(1, nchrom + 1):
            for runs in itertools.product(range(1, maxrun + 1), repeat=nc):
                n = sum(runs)
                patterns = [[0] * n, [3] * n]
                for pos in range(n):
                    for frac in (1, 3):
                        base = 8 * n
                        long = base * frac            # ≈ ½ resp. ≈ ¾ of the resulting file
                        p = [0] * n
                        p[pos] = long
                        patterns.append(p)
                for p in patterns:
                    for nl in (True, False):
                        files.append((runs, p, nl))
        if tier != "thorough":
            files = [f for i, f in enumerate(files) if len(f[0]) <= 2 or i % 3 == 0]
        files0 = list(files)
        # the same shapes with multi-byte UTF-8 text in the extra column: a bisection probe may land inside a character
        files = [(r_, p_, n_, "x") for (r_, p_, n_) in files] + \
                [(r_, [q // 2 for q in p_], n_, "é") for i, (r_, p_, n_) in enumerate(files) if max(p_) > 3 and i % 2 == 0]
        # three-column lines ending in CR LF, or with a blank after the end coordinate (the readers trim both)
        files += [(r_, p_, n_, "S") for (r_, p_, n_) in files0 if max(p_) == 0]
        files = [f + ("\n",) for f in files] + \
                [(r_, p_, n_, "x", eol) for i, (r_, p_, n_) in enumerate(files0) if max(p_) == 0 for eol in ("\r\n", " \n")]
        for (runs, p, nl, ch, eol) in files:
            text, want = make_file(runs, p, nl, ch, eol)
            c = CaseT(f"ix{k}", "index", [], ["TEXT " + text.encode().hex()])
            c.tags.add("index")
            if eol != "\n":
                c.tags.add("index_crlf_or_trailing_blank")
            c.tags.add(f"index_chroms{len(runs)}")
            if max(p) > 3:
                c.tags.add("index_long_line")
            if ch == "S":
                c.tags.add("index_shortest_lines")
            elif ch != "x":
                c.tags.add("index_multibyte_text")
            if len(runs) >= 2:
                c.tags.add("nt")
            out.append(c)
            k += 1
            nlines = sum(runs)
            if rng.chance(1, 1 if tier == "thorough" else 4):
                for n in range(1, nlines + 3):
                    c = CaseT(f"ch{k}", "chunks", [n], ["TEXT " + text.encode().hex()])
                    c.tags.add("chunks")
                    if nlines >= 2:
                        c.tags.add("nt")
                    out.append(c)
                    k += 1
        # longer runs of the shortest lines (6–8 bytes) on 2–5 chromosomes: the bisection narrows to a few bytes above a line start
        for nruns in range(2, 6):
            for nlines in range(1, 7):
                for variant in (0, 1):
                    text = ""
                    for ri in range(nruns):
                        cname = ["1", "2", "3", "X", "Y"][ri]
                        for l in range(nlines):
                            text += f"{cname}\t{l}\t{l + 1}\n" if (variant == 0 or (ri + l) % 2 == 0) else f"{cname}\t{10 + l}\t{20 + l}\n"
                    c = CaseT(f"ix{k}", "index", [], ["TEXT " + text.encode().hex()])
                    c.tags |= {"index", "index_shortest_lines", f"index_chroms{nruns}", "nt"}
                    out.append(c)
                    k += 1
        # lines longer than the 8 KiB buffer of the BufReader the chunker reads through (a bed12 record with thousands of blocks, a
        # long name): a chunk target that lands inside such a line has more than one buffer load to skip to reach the line's end
        for g in range(40 if tier == "thorough" else 8):
            r = rng.fork(f"longline{g}")
            nl_ = r.range(2, 6)
            lens = [r.choice([3, 40, 8200, 9000, 20000, 30000]) for _ in range(nl_)]
            lens[r.below(nl_)] = r.choice([8300, 17000, 25000, 40000])
            text = "".join(f"chr{1 + i // 2}\t{i * 10}\t{i * 10 + 5}\t" + "n" * L + "\n" for i, L in enumerate(lens))
            for n in (2, 3, 4, 5, 8, 16):
                c = CaseT(f"ch{k}", "chunks", [n], ["TEXT " + text.encode().hex()])
                c.tags |= {"chunks", "nt", "chunks_line_longer_than_8KiB"}
                out.append(c)
                k += 1
        # --- consequence for the parallel path: an input that is NOT grouped (a foreign run inside a chromosome's run) must be
        # reported — by the indexer or by the per-chromosome readers — never converted silently with records missing
        import bbgen
        for g in range(300 if tier == "thorough" else 60):
            r = rng.fork(f"ungrouped{g}")
            bed = r.chance(1, 2)
            names = ["chr1", "chr2", "chr3", "chr4"][: r.range(2, 4)]
            rows = []
            for nm in names:
                pos = r.range(0, 30)
                for _ in range(r.range(1, 4)):
                    ln = r.choice([1, 5, 10, 100])
                    rows.append((nm, pos, pos + ln))
                    pos += ln + r.choice([0, 3, 50])
            # move a short run of one chromosome into (or behind) the run of another one
            src_nm = r.choice(names)
            mine = [x for x in rows if x[0] == src_nm]
            take = mine[-r.range(1, len(mine)):] if len(mine) > 1 and r.chance(1, 2) else mine[-1:]
            rest = [x for x in rows if x not in take]
            others = [i for i, x in enumerate(rest) if x[0] != src_nm]
            if not others:
                continue
            at = r.choice(others) + r.choice([0, 1])
            # a position that splits a run or puts the rows away from their own run
            new_rows = rest[:at] + take + rest[at:]
            runs_seq = [x[0] for i, x in enumerate(new_rows) if i == 0 or new_rows[i - 1][0] != x[0]]
            if len(runs_seq) == len(set(runs_seq)):
                continue                                   # still grouped
            o = {"compress": r.choice([0, 1]), "ips": r.choice([1, 1024]), "bs": 256, "zooms": r.choice(["none", "10"]), "pass": r.choice([1, 2]),
                 "inmem": r.choice([0, 1]), "rt": "mt", "threads": r.choice([2, 4]), "chan": 100, "src": "parix", "sort": r.choice(["all", "start"])}
            lines = [bbgen.opt_line(o)] + [f"CHROM {n} 100000" for n in names]
            for (nm, a, b) in new_rows:
                lines.append(f"E {nm} {a} {b} -" if bed else f"V {nm} {a} {b} {bbgen.f32bits(1.0)}")
            c = CaseT(f"ug{k}", "bed" if bed else "wig", [], lines, {"ungrouped_parallel", "nt"})
            out.append(c)
            # the same rows through the serial file source: the reference for "the record stream the serial path sees"
            o2 = dict(o)
            o2["src"] = "file"
            out.append(CaseT(f"ug{k}s", c.kind, [], [bbgen.opt_line(o2)] + lines[1:], {"ungrouped_serial"}))
            self.pairs = getattr(self, "pairs", []) + [(f"ug{k}", f"ug{k}s")]
            k += 1
        return out

    def extra_checks(self, rep, tier, rng, workdir):
        impl = getattr(self, "_last_impl", {})
        cases = {c.id: c for c in getattr(self, "_last_cases", [])}
        first = lambda il, t: next((l for l in il if l.startswith(t)), None)
        n = 0
        for par, ser in getattr(self, "pairs", []):
            if par not in impl or ser not in impl:
                continue
            n += 1
            rp, rs = (impl[par] or ["R missing"])[0], (impl[ser] or ["R missing"])[0]
            bad = None
            if rs.startswith("R err") and not rp.startswith("R err"):
                bad = f"the serial path refuses this input (`{rs}`), the per-chromosome-parallel path converts it (`{rp}`)"
            elif rs == "R ok" and rp == "R ok" and first(impl[par], "BYTES") != first(impl[ser], "BYTES"):
                bad = (f"both paths convert this input, to different files (`{first(impl[ser], 'BYTES')}` serial, `{first(impl[par], 'BYTES')}` parallel): "
                       "the parallel path did not see the record stream the serial path sees")
            elif rs == "R ok" and rp != "R ok":
                bad = f"the serial path converts this input, the per-chromosome-parallel path does not (`{rp}`)"
            if bad and not any("ungrouped" in v[0] for v in rep.violations):
                rep.violation(f"ungrouped_{par}.case", cases[ser].text() + cases[par].text() + f"# {bad}\n# replay: ./check C18 --replay runs both cases\n")
        rep.coverage["ungrouped_inputs_serial_vs_parallel"] = n
        rep.evals += n

    def compare(self, case, il, ml):
        if case.tags & {"ungrouped_parallel", "ungrouped_serial"}:
            return None                      # judged pairwise: the model's sources see the rows in file order
        if "view_over_4GiB" in case.tags:
            return None                      # the model driver holds a file as a list of bytes; judged by the oracle
        return super().compare(case, il, ml)

    def nontrivial(self, case, il):
        return "nt" in case.tags

    def oracle(self, case, il):
        if any(l.startswith(("R panic", "R hang", "R crashed")) for l in il):
            return "call did not return normally: " + il[0][:60]
        if case.tags & {"ungrouped_parallel", "ungrouped_serial"}:
            return None                      # judged pairwise in extra_checks (serial vs parallel on the same rows)
        if case.kind == "fileview":
            data = unhex(case.records("TEXT")[0][1])
            hole = case.records("HOLE")
            hp, hl = (int(hole[0][1]), int(hole[0][2])) if hole else (0, 0)
            total = len(data) + hl

            def image(x, y):
                """bytes [x, y) of the file: the text with hl zero bytes inserted at hp (y − x is small)"""
                return bytes((data[q] if q < hp else (0 if q < hp + hl else data[q - hl])) for q in range(x, min(y, total)))
            a, b = int(case.args[0]), min(int(case.args[1]), total)
            vlen = max(0, b - a)
            pos = 0
            want = []
            for op in case.records("OP"):
                if op[1] == "read":
                    n = int(op[2])
                    chunk = image(a + pos, a + min(vlen, pos + n))
                    pos += len(chunk)
                    want.append("O bytes " + (chunk.hex() or "-"))
                else:
                    k = int(op[3])
                    if op[2] == "start":
                        pos = min(k, vlen)
                    elif op[2] == "cur":
                        pos = max(0, min(vlen, pos + k))
                    else:
                        pos = max(0, min(vlen, vlen + min(k, 0)))
                    want.append(f"O pos {pos}")
            if il != want:
                for i, (x, y) in enumerate(zip(il + ["<missing>"] * len(want), want)):
                    if x != y:
                        return f"operation {i} ({' '.join(case.records('OP')[i][1:])}) gave `{x}`, the isolated range gives `{y}`"
                return "different number of answers"
            return None
        text = unhex(case.records("TEXT")[0][1])
        starts, off = [], 0
        for ln in text.split(b"\n"):
            if off < len(text):
                starts.append(off)
            off += len(ln) + 1
        if case.kind == "chunks":
            if not il or not il[0].startswith("CHUNKS") or il[0] == "CHUNKS err":
                return "chunker failed: " + (il[0] if il else "")
            ch = [tuple(int(x) for x in t.split(":")) for t in il[0].split(" ")[1:]]
            if not ch or ch[0][0] != 0 or ch[-1][1] != len(text):
                return f"chunks {ch} do not span [0,{len(text)})"
            for i, (s, e) in enumerate(ch):
                if i and s != ch[i - 1][1]:
                    return f"chunks {ch} are not contiguous"
                if s not in starts:
                    return f"chunk start {s} is not a line start"
                if e <= s:
                    return f"empty chunk {s}:{e}"
            return None
        if case.kind == "index":
            want, prev = [], None
            for s in starts:
                line = text[s:text.find(b"\n", s) if text.find(b"\n", s) >= 0 else len(text)]
                ch = line.split(b"\t")[0]
                if ch != prev:
                    want.append(f"{s}:{ch.hex()}")
                prev = ch
            w = "INDEX " + " ".join(want)
            if il != [w]:
                return f"index is `{il[0] if il else ''}`, first lines of the runs are `{w}`"
            return None
        return None

    def known_match(self, finding, case, reason):
        return False


PROP = C18()
