"""C19 — the stored autoSql always matches the data; the schema parser is total."""
import itertools
from vlib import Prop, CaseT, unhex

ALPHA = ["(", ")", "[", "]", ",", ";", '"', " ", "a", "é", "\u00a0", "\u2003"]   # incl. multi-byte white space (NBSP, EM SPACE)
TYPES = ["int", "uint", "short", "ushort", "byte", "ubyte", "float", "double", "char", "string", "lstring", "bigint"]


def gen_schema(rng):
    """a schema from the autoSql grammar, as a token list (tokens are joined without extra separators)"""
    toks = []
    gen_schema.last_counts = []
    ndecl = rng.range(1, 2)
    for _ in range(ndecl):
        toks += [rng.choice(["table", "simple", "object"]), " ", rng.choice(["t", "bed", "geneX", "a1"])]
        r = rng.below(8)
        if r == 0:
            toks += [" ", "primary"]
        elif r == 1:
            toks += [" ", "unique"]
        elif r == 2:
            toks += [" ", "index"]
        elif r == 3:
            toks += [" ", "index", "[", "12", "]"]
        if rng.chance(1, 6):
            toks += [" ", "auto"]
        toks += ["\n", '"' + rng.choice(["A comment", "c", "Browser (extensible) data; x", ""]) + '"', "\n", "(", "\n"]
        nfields = rng.range(1, 5)
        gen_schema.last_counts.append(nfields)
        for _f in range(nfields):
            toks += ["    "]
            r = rng.below(10)
            if r < 6:
                toks += [rng.choice(TYPES)]
                if rng.chance(1, 4):
                    toks += ["[", rng.choice(["3", "count", "blockCount"]), "]"]
            elif r < 8:
                toks += [rng.choice(["enum", "set"]), "("]
                vals = [rng.choice(["a", "b", "red", "x1"]) for _ in range(rng.range(1, 3))]
                for i, v in enumerate(vals):
                    toks += [v]
                    if i + 1 < len(vals):
                        toks += [",", " "]
                toks += [")"]
            else:
                toks += [rng.choice(["simple", "object", "table"]), " ", rng.choice(["pt", "sub"])]
                if rng.chance(1, 3):
                    toks += ["[", "2", "]"]
            toks += [" ", rng.choice(["name", "chromStart", "fieldÉ", "x"])]
            r = rng.below(10)
            if r == 0:
                toks += [" ", "primary"]
            elif r == 1:
                toks += [" ", "index", "[", "4", "]"]
            elif r == 2:
                toks += [" ", "unique"]
            if rng.chance(1, 8):
                toks += [" ", "auto"]
            toks += [";", "\t", '"' + rng.choice(["Name of item.", "Score (0-1000)", "", "é; ,"]) + '"', "\n"]
        toks += [")", "\n"]
    return toks


class C19(Prop):
    pid = "C19"
    impl_timeout = 3
    rule = ("generated schemas for 0..40 extra columns (generator text and field count); grammar-based schemas "
            "(simple/object/table; sized and variable arrays; enum/set; index/unique/primary/auto), every truncation "
            "(by token) and single-token mutation of each; supplied schemas of 150 and 260 documented fields (beyond 8 KiB of text); every string of length ≤ 4 (quick) / ≤ 5 (thorough) over "
            "the alphabet ( ) [ ] , ; \" space a é NBSP EM-SPACE (multi-byte white space); schemas whose blanks are partly non-ASCII white space. Non-trivial = the real parser returns at least one declaration "
            "with a field, or an error other than InvalidDeclareType")
    removable = ()

    def cases(self, rng, tier):
        out, k = [], 0
        for n in range(41):
            rest = "\t".join(f"f{i}" for i in range(n))
            out.append(CaseT(f"gen{n}", "autosql", [], ["GEN " + (rest.encode().hex() or "-")], tags={"gen"}))
        nschema = 120 if tier == "thorough" else 25
        for si in range(nschema):
            toks = gen_schema(rng)
            texts = {"".join(toks)}
            for cut in range(len(toks)):
                texts.add("".join(toks[:cut]))
            muts = ["(", ")", "[", "]", ",", ";", '"', "enum", "set", "x", ""]
            for i in range(len(toks)):
                if tier != "thorough" and not rng.chance(1, 3):
                    continue
                m = rng.choice(muts)
                texts.add("".join(toks[:i] + [m] + toks[i + 1:]))
            # the same schema as pasted from a web page: some blanks are non-ASCII white space (NBSP, EM SPACE, IDEOGRAPHIC SPACE)
            for ws in ("\u00a0", "\u2003", "\u3000"):
                texts.add("".join((ws if (tk == " " and rng.chance(1, 2)) else tk) for tk in toks))
            for t in sorted(texts):
                out.append(CaseT(f"sc{k}", "autosql", [], ["TEXT " + (t.encode().hex() or "-")], tags={"schema"}))
                k += 1
        # schemas supplied to the library: stored verbatim, header field count = fields of the LAST parsed declaration
        # (helper `simple` / `object` declarations before the table, unparsable text ⇒ 3, the default ⇒ BED3)
        nlib = 400 if tier == "thorough" else 60
        for li in range(nlib):
            toks = gen_schema(rng)
            text = "".join(toks)
            expect = gen_schema.last_counts[-1]               # fields of the last declaration: the table's
            if li % 7 == 0:
                text = text[: len(text) // 2]                 # truncated: does not parse
                expect = None
            if li % 6 == 1:
                text = text.replace(" ", "\u00a0", 2).replace("    ", "\u2003", 1)    # non-ASCII white space in a supplied schema
            if li % 5 == 0:
                text = 'simple helper\n"a helper type"\n(\n    int a;\t"a"\n    int b;\t"b"\n)\n' + text
            ncol = 0
            lines = ["OPT compress=0 ips=1024 bs=256 zooms=none pass=" + str(1 + li % 2) + " src=iter",
                     "CHROM chr1 1000", "E chr1 5 9 " + ("6162" if li % 2 else "-"), "E chr1 7 20 -"]
            if li % 9 != 8:
                lines.append("AUTOSQL " + text.encode().hex())
            c = CaseT(f"lib{li}", "bed", [], lines, tags={"library_schema"})
            c.expect_fields = expect if li % 9 != 8 else 3    # no schema supplied: the three-field default
            out.append(c)
        # a supplied schema in a file with as many zoom levels as the data allows and max_zooms above the ten slots of the zoom
        # directory (the schema text sits right behind that directory)
        for li in range(2):
            text = 'table deep\n"Entries with a name and a score"\n(\n    string chrom;\t"c"\n    uint chromStart;\t"s"\n    uint chromEnd;\t"e"\n    string name;\t"n"\n    uint score;\t"x"\n)\n'
            pos = [0] + [200 * 4 ** j for j in range(13)]
            lines = [f"OPT compress=0 ips=1 bs=256 zooms=auto izs={(64, 160)[li]} nzooms={(12, 15)[li]} pass={1 + li} src=iter sort=all", "CHROM chr1 4294967295"] + \
                    [f"E chr1 {p_} {p_ + 1} " + ("n" * 60 + "\t%d" % i).encode().hex() for i, p_ in enumerate(pos)] + ["AUTOSQL " + text.encode().hex()]
            c = CaseT(f"libdeep{li}", "bed", [], lines, tags={"library_schema", "deep_zoom_pyramid"})
            c.expect_fields = 5
            out.append(c)
        # schemas longer than any I/O buffer (8 KiB): stored, returned and counted in full
        # … and longer than 64 KiB (nf = 800: about 76 KB), beyond any 16-bit length or "reasonable" cap a reader might apply
        for li, nf in enumerate((150, 260, 800) if tier != "thorough" else (150, 200, 260, 600, 800, 1500)):
            text = 'table wide\n"A table with many documented columns"\n(\n' + "".join(
                f'    {"string" if i % 3 else "uint"} column{i};\t"Documentation of column number {i}, as long as such comments are"\n' for i in range(nf)) + ")\n"
            for dm in ("", " destmax=4096", " destmax=1000"):
                # also into a destination whose write() takes only part of a large buffer (a chunking wrapper, a pipe): a text
                # longer than the BufWriter in front of it reaches such a destination in one call
                lines = ["OPT compress=0 ips=1024 bs=256 zooms=none pass=" + str(1 + li % 2) + " src=iter" + dm,
                         "CHROM chr1 1000", "E chr1 5 9 -", "E chr1 7 20 -", "AUTOSQL " + text.encode().hex()]
                c = CaseT(f"liblong{li}{dm[-4:].strip('=')}", "bed", [], lines, tags={"library_schema", "schema_over_8k"} | ({"destination_accepts_short_writes"} if dm else set()))
                c.expect_fields = nf
                out.append(c)
        maxlen = 5 if tier == "thorough" else 4
        for L in range(0, maxlen + 1):
            for tup in itertools.product(ALPHA, repeat=L):
                t = "".join(tup)
                out.append(CaseT(f"st{k}", "autosql", [], ["TEXT " + (t.encode().hex() or "-")], tags={"short"}))
                k += 1
        # keyword-led short strings so that the deeper parser states are reached by the exhaustive part as well
        heads = ['table t "c" (', 'table t "c" ( int', 'table t "c" ( enum(', 'table t "c" ( set(a', 'table t "c" ( int[',
                 'table t index[', 'table t "c" ( int x', 'table t "c" ( int x;', 'table t "c" ( simple p']
        tl = 3 if tier == "thorough" else 2
        for h in heads:
            for L in range(0, tl + 1):
                for tup in itertools.product(ALPHA, repeat=L):
                    t = h + "".join(tup)
                    out.append(CaseT(f"hd{k}", "autosql", [], ["TEXT " + t.encode().hex()], tags={"headed"}))
                    k += 1
        return out

    def view(self, lines):
        # for the library cases: the stored text and the header's field counts
        if any(l.startswith("HDR") for l in lines):
            return [l for l in lines if l.split(" ")[0] in ("R", "OPEN", "HDR", "AUTOSQL", "ITEMCOUNT")]
        return lines

    def model_extra(self, case, il):
        return ["LEVELS"] if case.kind == "bed" else []

    def nontrivial(self, case, il):
        if "library_schema" in case.tags:
            return True
        if "gen" in case.tags:
            return True
        if any(l.startswith("FIELD ") for l in il):
            return True
        return any(l.startswith("PARSE err") and "InvalidDeclareType" not in l for l in il)

    def tags(self, case, il):
        t = set(case.tags)
        for l in il:
            if l.startswith("PARSE err"):
                t.add("err_" + l.split(" ")[2])
            if l.startswith("PARSE ok"):
                t.add("ok_decls_" + l.split(" ")[2])
        return t

    def oracle(self, case, il):
        if any(l.startswith("R hang") for l in il):
            return "the parser did not return (hang)"
        if any(l.startswith("R crashed") for l in il):
            return "the parser brought the process down (unbounded growth or abort)"
        if any(l.startswith("R panic") for l in il):
            return "the parser panicked"
        if "library_schema" in case.tags:
            if (il[0] if il else "") != "R ok":
                return None if il and il[0].startswith("R err") else "the bigBed writer did not return normally with a supplied schema"
            a = case.records("AUTOSQL")
            got = next((l for l in il if l.startswith("AUTOSQL")), None)
            if a and got != "AUTOSQL " + a[0][1]:
                return "the supplied autoSql text is not returned verbatim"
            ef = getattr(case, "expect_fields", None)
            hdr = next((l for l in il if l.startswith("HDR")), "")
            if ef is not None and f"fields={ef} defined={ef}" not in hdr:
                return f"the header's field count is `{hdr}`, the schema's last declaration declares {ef} fields"
            return None
        if "gen" in case.tags:
            rest = unhex(case.records("GEN")[0][1])
            n = 0 if not rest else rest.count(b"\t") + 1
            f = [l for l in il if l.startswith("FIELDS")]
            if f != [f"FIELDS {3 + n}"]:
                return f"generated schema for {n} extra columns declares `{f}` fields, expected {3 + n}"
        return None


PROP = C19()
