"""C14 — no partial file passes for a complete one; no I/O failure is reported as success."""
from vlib import CaseT
from wbprop import WigBedProp
import bbgen


class C14(WigBedProp):
    pid = "C14"
    impl_timeout = 120
    view_tags = ("R", "FINAL", "PREFIX", "FIRSTOPEN", "FAULT")
    rule = ("small bigWig / bigBed inputs (1–3 chromosomes), inputs with > 8 KiB of data per chromosome (so that the nested "
            "BufWriters spill mid-stream) and inputs of 3–5 chromosomes with 2–7 KiB each (tails below the BufWriter capacity "
            "that exceed it together), inputs of 3–4 chromosomes of 10–40 KiB each (a staged chromosome is copied into the destination "
            "at the hand-over), one input whose second chromosome (80,000 values, parallel source, temp-file staging) is still being written when the file is handed to it, all option records; for each: the recorded sequence of destination operations, every "
            "prefix replayed into an empty buffer AND into a buffer that already holds an older complete file of the same kind, and opened with the real readers (rejected / complete / partial: all chromosomes, "
            "every record and every zoom record compared with the complete file), and the write repeated with the k-th destination "
            "operation failing, for every k and operation kind. Non-trivial = every case (each contributes all its prefixes and "
            "faults; the counts are in the histogram)")
    removable = ("V", "E")

    def cases(self, rng, tier):
        n = 40 if tier == "thorough" else 10
        out = []
        for k in range(n):
            r = rng.fork(k)
            bed = r.chance(1, 2)
            big = (k % 5 == 4)
            o = bbgen.gen_options(r, tier)
            if o["rt"] == "ct":
                o["rt"], o["threads"], o["chan"] = "mt", 2, 100
            if bed:
                names, sizes, data, tags = bbgen.gen_bed_input(r, nchrom=r.choice([1, 2, 3]), maxn=300 if big else 8)
                if big:
                    nm = names[0]
                    sizes[nm] = 800000
                    data[nm] = [(i * 7, i * 7 + 5, "nameOfItem%d\t0\t+" % i) for i in range(900)]
                    o["compress"] = 0
                lines = [bbgen.opt_line(o)] + bbgen.bed_lines(names, sizes, data)
            else:
                names, sizes, data, tags = bbgen.gen_wig_input(r, nchrom=r.choice([1, 2, 3]), value_mode="int", maxn=8)
                if big:
                    nm = names[0]
                    sizes[nm] = 800000
                    data[nm] = [(i * 9, i * 9 + 4, bbgen.f32bits(float(1 + i % 5))) for i in range(1500)]
                    o["compress"] = 0
                lines = [bbgen.opt_line(o)] + bbgen.wig_lines(names, sizes, data)
            medium = (k % 5 in (1, 3))
            if medium:
                # several chromosomes whose section data stay below BufWriter's 8 KiB each but exceed it together:
                # the tails are then handed from one buffered writer to the next when a writer is dropped
                nch = r.choice([3, 4, 5])
                names = ["chrA", "chrB", "chrC", "chrD", "chrE"][:nch]
                sizes = {n: 100000 for n in names}
                o["compress"] = r.choice([0, 0, 1])
                o["ips"] = 1024
                if bed:
                    data = {n: [(i * 9, i * 9 + 5, "it%d" % (i * 7919 % 1000)) for i in range(r.range(120, 330))] for n in names}
                    lines = [bbgen.opt_line(o)] + bbgen.bed_lines(names, sizes, data)
                else:
                    data = {n: [(i * 9, i * 9 + 4, bbgen.f32bits(float(1 + (i * 7919 + j) % 97))) for i in range(r.range(200, 650))]
                            for j, n in enumerate(names)}
                    lines = [bbgen.opt_line(o)] + bbgen.wig_lines(names, sizes, data)
                tags.add("tails_cross_bufwriter_capacity")
            if k % 5 == 2:
                # several chromosomes EACH larger than the 8 KiB BufWriter: a chromosome staged aside is copied into the
                # destination in one large write when the file is handed to it (await_real_file / update), so a fault can
                # land on the hand-over copy itself
                nch = r.choice([3, 4])
                names = ["chrA", "chrB", "chrC", "chrD"][:nch]
                sizes = {n: 200000 for n in names}
                o["compress"] = 0
                o["ips"] = 1024
                o["inmem"] = r.choice([0, 1])
                if bed:
                    data = {n: [(i * 9, i * 9 + 5, "item%d" % (i * 7919 % 1000)) for i in range(r.range(700, 1500))] for n in names}
                    lines = [bbgen.opt_line(o)] + bbgen.bed_lines(names, sizes, data)
                else:
                    data = {n: [(i * 9, i * 9 + 4, bbgen.f32bits(float(1 + (i * 7919 + j) % 97))) for i in range(r.range(1200, 3200))]
                            for j, n in enumerate(names)}
                    lines = [bbgen.opt_line(o)] + bbgen.wig_lines(names, sizes, data)
                tags.add("handover_copy_exceeds_bufwriter")
            tags.add("bed" if bed else "wig")
            if big:
                tags.add("spills_bufwriter")
            out.append(CaseT(f"o{k}", "bedops" if bed else "wigops", [], lines, self.common_tags(o, names, data, tags)))
        # many chromosomes: a chromosome tree (and, with them, index levels) LARGER than the 8 KiB BufWriter in front of the destination —
        # a small write inside the tree is then the call that has to flush the full buffer, and a fault lands on THAT write
        for g, kind in enumerate(("wig", "bed") if tier == "thorough" else ("wig",)):
            nch = 700 + 37 * g
            names = [f"c{i:03d}" for i in range(nch)]
            sizes = {n: 1000 + i for i, n in enumerate(names)}
            o = {"compress": 0, "ips": 1024, "bs": 256, "zooms": "none", "pass": 1 + g, "inmem": 1, "rt": "mt", "threads": 2, "chan": 100,
                 "src": "iter", "sort": "all"}
            if kind == "wig":
                data = {n: [(5, 9, bbgen.f32bits(float(1 + i % 5)))] for i, n in enumerate(names)}
                lines = [bbgen.opt_line(o)] + bbgen.wig_lines(names, sizes, data)
            else:
                data = {n: [(5, 9, "e")] for n in names}
                lines = [bbgen.opt_line(o)] + bbgen.bed_lines(names, sizes, data)
            out.append(CaseT(f"manychroms{g}", "bedops" if kind == "bed" else "wigops", [], lines, {kind, "chromosome_tree_exceeds_bufwriter", "multi_chrom"}))
        # a LATER chromosome that has already staged several buffers aside and is STILL being written when the file is handed
        # to it (per-chromosome-parallel source, temp-file staging): the replay of the staged bytes happens inside the
        # producer's next write, and a fault can land on that replay
        for g in range(2 if tier == "thorough" else 1):
            names = ["chrA", "chrB"]
            sizes = {"chrA": 2000000, "chrB": 2000000}
            data = {"chrA": [(i * 9, i * 9 + 4, bbgen.f32bits(float(1 + i % 7))) for i in range(20000)],
                    "chrB": [(i * 9, i * 9 + 4, bbgen.f32bits(float(1 + i % 11))) for i in range(80000 + 1000 * g)]}
            o = {"compress": 0, "ips": 1024, "bs": 256, "zooms": "none", "pass": 1, "inmem": 0, "rt": "mt", "threads": 4, "chan": 100,
                 "src": "par", "sort": "all"}
            lines = [bbgen.opt_line(o)] + bbgen.wig_lines(names, sizes, data)
            out.append(CaseT(f"still{g}", "wigops", [], lines, {"wig", "later_chromosome_still_writing_at_handover", "multi_chrom"}))
        return out

    def view(self, lines):
        # `s`: the run with the failing k-th operation issued fewer than k operations (their number varies with task
        # timing), so no failure was injected: no information.
        # a panic on an injected destination failure is not "success" and not a hang: the property allows it,
        # so it is compared as an error (the count is reported in the evidence)
        out = []
        for l in lines:
            t = l.split(" ")[0]
            if t in self.view_tags:
                out.append(l.replace(" p", " e").replace(" s", " e") if t == "FAULT" else l)
        return out

    def model_extra(self, case, il):
        ops = bbgen.first_line(il, "OPS")
        return ["OPLOG " + ops[4:]] if ops else []

    def nontrivial(self, case, il):
        return True

    def tags(self, case, il):
        t = set(case.tags)
        return t

    def oracle(self, case, il):
        r = il[0] if il else "R missing"
        if r != "R ok":
            return f"the writer did not accept a valid input or did not return: `{r[:60]}`"
        p = bbgen.first_line(il, "PREFIX")
        f = bbgen.first_line(il, "FAULT")
        if not p or not f:
            return "no prefix / fault report"
        pv = p.split(" ")[1:]
        if "P" in pv:
            k = pv.index("P")
            ops = (bbgen.first_line(il, "OPS") or "").split(" ")[2:]
            return (f"after the first {k} destination operations (the last one being `{ops[k - 1] if 0 < k <= len(ops) else '?'}`) the file "
                    f"opens but does not serve every record and zoom level of the complete file")
        seen_c = False
        for v in pv:
            if v == "c":
                seen_c = True
            elif seen_c:
                return "a later prefix is rejected after an earlier one was complete"
        po = (bbgen.first_line(il, "PREFIXOLD") or "").split(" ")[1:]
        if "P" in po:
            k = po.index("P")
            ops = (bbgen.first_line(il, "OPS") or "").split(" ")[2:]
            return (f"destination that already held an older complete file: after the first {k} destination operations (the last one "
                    f"being `{ops[k - 1] if 0 < k <= len(ops) else '?'}`) it opens but serves neither the old nor the new file completely")
        fv = f.split(" ")[1:]
        for k, v in enumerate(fv):
            if v == "S":
                return f"the {k + 1}-th of {len(fv)} destination operations failed and the write call reported success"
        if bbgen.first_line(il, "FINAL") != "FINAL opens":
            return "the complete file is rejected by the reader"
        return None

    def extra_checks(self, rep, tier, rng, workdir):
        npre = nfault = 0
        for cid, il in self._last_impl.items():
            p = bbgen.first_line(il, "PREFIX")
            f = bbgen.first_line(il, "FAULT")
            npre += len(p.split(" ")) - 1 if p else 0
            po = bbgen.first_line(il, "PREFIXOLD")
            npre += len(po.split(" ")) - 1 if po else 0
            if po:
                rep.tag("reused_destination_prefixes", len(po.split(" ")) - 1)
            nfault += len(f.split(" ")) - 1 if f else 0
            if f and " p" in f:
                rep.tag("panic_on_injected_failure", f.count(" p"))
        rep.coverage["prefixes_replayed"] = npre
        rep.coverage["faults_injected"] = nfault
        rep.evals += npre + nfault


PROP = C14()
