"""C05 — the on-disk R-tree finds exactly what a linear scan finds, for every tree shape."""
import os
from vlib import CaseT, run_model, f32bits
from wbprop import WigBedProp, byte_level_check
import bbgen


def layout(n, nchrom):
    """n one-value blocks spread over nchrom chromosomes: (names, sizes, data)"""
    names = ["chrA", "chrB", "chrC"][:nchrom]
    per = [n // nchrom + (1 if i < n % nchrom else 0) for i in range(nchrom)]
    data, sizes = {}, {}
    v = 1
    for nm, k in zip(names, per):
        vals = []
        for i in range(k):
            s = 3 + 10 * i
            vals.append((s, s + 6, f32bits(float(1 + v % 9))))
            v += 1
        data[nm] = vals
        sizes[nm] = 10 * max(k, 1) + 20
    names = [nm for nm in names if data[nm]]
    return names, sizes, data


class C05(WigBedProp):
    pid = "C05"
    view_tags = ("R", "OPEN", "A")
    rule = ("exhaustive over block counts n and fan-outs b (quick: n ∈ 1..40, b ∈ 2..6; thorough: n ∈ 1..260, b ∈ 2..17 and b ∈ "
            "{255,256,257} with n around b and b²): n one-value sections (items_per_slot = 1) on 1–3 chromosomes written through "
            "the public API, so the main index has n leaves and 1–6 levels with full and partly filled last nodes; a zoom level "
            "with one record per section gives a second tree per file; bigBed-shaped files with non-monotone ends. Queries: each "
            "block's first base, last base, the gap after it, the base before it, both chromosome ends, plus seeded pairs of "
            "boundary points. Every uncompressed file is also answered by the byte-level reader model on the implementation's "
            "own bytes and checked by the Lean well-formedness certificate. Plus searches with a reader whose k-th read fails once (every k ≤ 30): an error or exactly the linear scan's blocks; plus index images from the independent encoder. Non-trivial = tree with ≥ 2 levels")

    def shapes(self, tier):
        if tier == "thorough":
            nb = [(n, b) for b in range(2, 18) for n in list(range(1, 60)) + list(range(60, 261, 7))]
            for b in (255, 256, 257):
                for n in (b - 1, b, b + 1, 2 * b + 1):
                    nb.append((n, b))
            nb += [(256 * 256 + 1, 256), (65, 2), (1025, 2)]
            return nb
        # wide nodes as well: a node of more than 32 entries is where a reader would switch from scanning to bisecting
        return [(n, b) for b in range(2, 7) for n in range(1, 41)] + [(n, b) for b in (33, 40, 64) for n in (b - 1, b + 1, 2 * b + 3, 150)] + \
            [(2100, 2048), (3300, 3000)] + \
            [(70000, 2)]          # (one chromosome) one leaf node of ≥ 2048 entries (2048 · 32 bytes no longer fits 16 bits); an index of more than 2^16 nodes

    def cases(self, rng, tier):
        out = []
        for k, (n, b) in enumerate(self.shapes(tier)):
            r = rng.fork(k)
            nchrom = 1 + (n + b) % 3 if n >= 3 else 1
            names, sizes, data = layout(n, nchrom)
            bed = (k % 4 == 3 or (32 < b < 200 and k % 2 == 1)) and n <= 300
            # every third file through the caching reader: its index nodes are decoded once and searched again from the cache by
            # the later queries of the case (a second code path over the same tree)
            o = {"compress": 0, "ips": 1, "bs": b, "zooms": "4" if n <= 400 else "none", "pass": 1 + k % 2, "inmem": k % 2,
                 "rt": "mt", "threads": 2, "chan": 100, "src": "iter", "sort": "all", "reader": "cached" if k % 3 == 0 or (32 < b < 200) else "plain"}
            tags = {f"fanout_{b}" if b < 20 else ("fanout_33_to_64" if b < 200 else ("fanout_256ish" if b < 1000 else "fanout_2048_or_more")), "reader_" + o["reader"]}
            depth, m = 1, n
            while m > b:
                m = (m + b - 1) // b
                depth += 1
            tags.add(f"levels_{depth}")
            if depth >= 2:
                tags.add("nt")
            if n % b:
                tags.add("partial_last_node")
            if n > 65536:
                tags |= {"index_over_2^16_nodes"} | ({"skip_model_extras"} if tier != "thorough" else set())
            qs = []
            for nm in names:
                vals = data[nm]
                step = 1 if len(vals) <= 60 else len(vals) // 40
                for (s, e, _) in vals[::step]:
                    qs += [(nm, s, s + 1), (nm, e - 1, e), (nm, e, e + 1), (nm, s - 1, s), (nm, s - 1, e + 1)]
                qs += [(nm, 0, 1), (nm, sizes[nm] - 1, sizes[nm]), (nm, 0, sizes[nm])]
                pts = bbgen.boundary_points(vals[:: max(1, len(vals) // 30)], sizes[nm])
                for _ in range(12):
                    a, c = r.choice(pts), r.choice(pts)
                    qs.append((nm, min(a, c), max(a, c)))
            if bed:
                # entries: the first one on each chromosome is very long, so block ends are not monotone
                bdata = {}
                for nm in names:
                    ents = [(s, e, "") for (s, e, _) in data[nm]]
                    if len(ents) > 1:
                        ents[0] = (ents[0][0], sizes[nm] - 1, "")
                    bdata[nm] = ents
                lines = [bbgen.opt_line(o)] + bbgen.bed_lines(names, sizes, bdata)
                lines += [f"Q iv {nm} {a} {c}" for (nm, a, c) in qs if a < c]
                tags.add("bed_shaped")
                out.append(CaseT(f"t{k}", "bed", [], lines, tags))
            else:
                lines = [bbgen.opt_line(o)] + bbgen.wig_lines(names, sizes, data)
                lines += [f"Q iv {nm} {a} {c}" for (nm, a, c) in qs]
                if o["zooms"] != "none":
                    lines += [f"Q zoom {nm} {a} {c} #0" for (nm, a, c) in qs[::5]]
                    lines += [f"Q zoom {nm} 0 {sizes[nm]} #0" for nm in names]
                out.append(CaseT(f"t{k}", "wig", [], lines, tags))
        # transient read failures while the index is searched: a reader whose k-th read after opening fails once — at every k
        # the search must report the failure or find exactly what the linear scan finds (never fewer blocks, silently)
        for g in range(12 if tier != "thorough" else 60):
            r = rng.fork(f"flaky{g}")
            names = ["chrA", "chrB", "chrC"][: r.range(1, 3)]
            sizes = {n: 5000 for n in names}
            data = {n: [(7 * i + j, 7 * i + j + 4, bbgen.f32bits(float(1 + (i + j) % 6))) for i in range(r.range(4, 30))] for j, n in enumerate(names)}
            o = {"compress": 0, "ips": r.choice([1, 2]), "bs": r.choice([2, 3, 4]), "zooms": "none", "pass": 1, "inmem": 1, "rt": "mt",
                 "threads": 2, "chan": 100, "src": "iter", "sort": "all", "reader": "flaky", "flaky": 30}
            nm = r.choice(names)
            a = r.range(0, 60)
            b = a + r.choice([1, 5, 40, 400])
            lines = [bbgen.opt_line(o)] + bbgen.wig_lines(names, sizes, data) + [f"Q iv {nm} {a} {b}"]
            out.append(CaseT(f"flaky{g}", "wig", [], lines, {"transient_read_failures", "nt", "multi_section"}))
        # index images no bigtools writer produces (big-endian, depth-first / reversed / index-before-data placement, other
        # fan-outs): the readers' big-endian node decoders are reached only by these
        out += self.foreign_cases(rng.fork("fw"), tier, False, 40, 250) + [c.copy(id="b" + c.id) for c in self.foreign_cases(rng.fork("fb"), tier, True, 40, 250)]
        return out

    def nontrivial(self, case, il):
        return "nt" in case.tags

    def compare(self, case, il, ml):
        if "transient_read_failures" in case.tags:
            return None                      # judged by the oracle (the model has no failing reads)
        return super().compare(case, il, ml)

    def oracle(self, case, il):
        if case.kind in ("readwig", "readbed"):
            return self.foreign_oracle(case, il)
        if "transient_read_failures" in case.tags:
            bad = bbgen.basic_ok(il)
            if bad:
                return bad
            if not case.records("Q"):
                return None
            q = case.records("Q")[0]
            nm, a, b = q[2], int(q[3]), int(q[4])
            want = "ok" + "".join(f" {max(s_, a)}:{min(e_, b)}:{bits}" for (t, c, s_, e_, bits) in
                                  [(l[0], l[1], int(l[2]), int(l[3]), l[4]) for l in case.records("V")] if c == nm and e_ > a and s_ < b)
            fl = [l for l in il if l.startswith("F ")]
            if not fl or fl[0] != "F 0 " + want:
                return f"undisturbed reader: `{(fl[0] if fl else '')[:120]}`, the stored values overlapping {nm}:{a}-{b} are `{want[:120]}`"
            for l in fl[1:]:
                k, rest = l.split(" ", 2)[1:]
                if rest != "err" and rest != want:
                    return (f"the {k}-th read after opening failed once: the query {nm}:{a}-{b} reported success with {rest.count(':') // 2} values, "
                            f"a linear scan finds {want.count(':') // 2}")
            return None
        bad = bbgen.basic_ok(il)
        if bad:
            return bad
        if case.kind == "bed":
            return bbgen.oracle_bed_queries(case, il)
        return bbgen.oracle_wig_queries(case, il) or bbgen.oracle_zoom(case, il, False)

    def extra_checks(self, rep, tier, rng, workdir):
        byte_level_check(self, rep, workdir)
        """the byte-level reader model and the Lean certificate on the implementation's own bytes"""
        outdir = os.path.join(workdir, "main", "out")
        main_cases = {c.id: c for c in self._last_cases}
        impl = self._last_impl
        stage = []
        for cid, c in main_cases.items():
            path = os.path.join(outdir, cid + ".bin")
            if not os.path.exists(path) or (impl.get(cid) or ["x"])[0] != "R ok" or "skip_model_extras" in c.tags:
                continue
            if c.kind == "wig" and "transient_read_failures" in c.tags:
                stage.append(CaseT("wf_" + cid, "wfwig", [], [f"FILE {path}"]))
            elif c.kind == "wig":
                stage.append(CaseT("rd_" + cid, "readwig", [], [f"FILE {path}"] + [l for l in c.lines if l.startswith("Q iv")]))
                stage.append(CaseT("wf_" + cid, "wfwig", [], [f"FILE {path}"]))
            else:
                stage.append(CaseT("wf_" + cid, "wfbed", [], [f"FILE {path}"]))
        mo = run_model(stage, os.path.join(workdir, "bytes"))
        nread = nwf = 0
        for sc in stage:
            ml = mo.get(sc.id, [])
            cid = sc.id[3:]
            if sc.kind == "readwig":
                nread += 1
                want = [l for l in impl[cid] if l.startswith("A ")]
                nq = len(sc.records("Q"))
                got = [l for l in ml if l.startswith("A ")]
                if got != want[:nq] and not rep.violations:
                    diff = next((f"{x[:120]} | {y[:120]}" for x, y in zip(got + ["<missing>"] * nq, want[:nq]) if x != y), "?")
                    rep.violation(f"bytes_{cid}.case", main_cases[cid].text() +
                                  "# correspondence (R): the byte-level reader model, run on the bytes the implementation wrote, answers "
                                  "differently from the implementation's reader: model | implementation: " + diff + "\n",
                                  "no-failing-input-found")
            else:
                nwf += 1
                if not (ml and ml[0].startswith("WF ok")) and not any("wf_" in v[0] for v in rep.violations):
                    rep.violation(f"wf_{cid}.case", main_cases[cid].text() +
                                  "# the Lean well-formedness certificate rejects the file the implementation wrote: " + (ml[0] if ml else "no answer") +
                                  "\n# (index spans must contain everything beneath them, leaves in file order, blocks consistent with the index)\n")
        rep.coverage["files_answered_by_reader_model_on_real_bytes"] = nread
        rep.coverage["files_accepted_by_lean_certificate"] = nwf
        rep.evals += nread + nwf


PROP = C05()
