"""C01 — bigWig write/read round trip is exact for every accepted input and option set."""
from vlib import Prop, CaseT
from wbprop import byte_level_check
import bbgen


class C01(Prop):
    pid = "C01"
    impl_timeout = 30
    rule = ("seeded bigWig inputs: 1–6 chromosomes (names of different lengths; sizes map with extra chromosomes), layouts "
            "dense / sparse / adjacent / touching 0 and the chromosome end / long values / occasional zero-length values, "
            "1 item up to many sections per chromosome, text inputs whose values are long decimals next to the midpoint of two f32 values, one chromosome with more than 65535 values under items_per_slot > 65535, values = arbitrary finite f32 bit patterns (2 of 3 cases) or small "
            "integers; × option records (compress, items_per_slot ∈ {1,2,3,7,1024,65535}, block_size ∈ {2,3,5,256}, zooms "
            "auto/none/manual, single/two pass, in-memory, channel size, runtime flavour and threads, iterator / file / "
            "parallel source, sorted-by-start mode with chromosomes out of order); queries: the full span of every "
            "chromosome + boundary ranges. Non-trivial = more than one section on some chromosome or more than one chromosome")
    removable = ("V", "Q")

    def cases(self, rng, tier):
        n = 2500 if tier == "thorough" else 260
        out = []
        for k in range(n):
            r = rng.fork(k)
            mode = "bits" if r.chance(2, 3) else "int"
            sort_start = r.chance(1, 6)
            names, sizes, data, tags = bbgen.gen_wig_input(r, value_mode=mode, sorted_names=not sort_start)
            o = bbgen.gen_options(r, tier)
            if sort_start:
                o["sort"] = "start"
                tags.add("chrom_order_free")
                if o["src"] == "par":
                    o["src"] = "file"
            if mode == "bits" and o["src"] != "iter":
                # text sources print and re-parse the value; shortest round-trip printing is exact for finite f32
                tags.add("text_roundtrip_bits")
            # occasionally a zero-length value in the middle / at the ends (D5 lives at the ends)
            if r.chance(1, 10):
                nm = r.choice(names)
                vals = data[nm]
                where = r.choice(["mid", "start", "end"])
                if where == "mid" and len(vals) >= 2 and vals[0][1] <= vals[1][0]:
                    p = vals[0][1]
                    vals.insert(1, (p, p, vals[0][2]))
                    tags.add("zero_length_mid")
                elif where == "start" and vals[0][0] == 0 or where == "start" and True:
                    if vals[0][0] >= 0:
                        vals.insert(0, (0, 0, vals[0][2]))
                        tags.add("zero_length_at_0")
                elif where == "end":
                    vals.append((sizes[nm], sizes[nm], vals[-1][2]))
                    tags.add("zero_length_at_end")
            if len(names) > 1 and k % 4 == 1:
                # read back the way the converters and the statistics tools read: the file on disk, the original reader plus readers
                # reopened from it, each on its own thread, all at once
                o["reader"] = "reopenedmt"
                tags.add("read_back_by_concurrent_reopened_readers")
            lines = [bbgen.opt_line(o)] + bbgen.wig_lines(names, sizes, data, extra_sizes=[("unusedChrom", 12345)] if r.chance(1, 3) else ())
            for nm in names:
                lines.append(f"Q iv {nm} 0 {sizes[nm]}")
            lines += bbgen.gen_queries(r, names, sizes, data, ["iv"], 3, ips=o["ips"])
            if len(names) > 1:
                tags.add("multi_chrom")
            if any(len(data[nm]) > o["ips"] for nm in names):
                tags.add("multi_section")
            for key in ("compress", "pass", "src", "rt", "inmem"):
                tags.add(f"{key}={o[key]}")
            out.append(CaseT(f"w{k}", "wig", [], lines, tags))
        # values written as LONG decimals in a text input, just above / below the midpoint of two neighbouring f32 values: the
        # stored bits must be those of the nearest f32 (a parse through f64 rounds twice and gets some of them wrong)
        import struct
        from decimal import Decimal, getcontext
        getcontext().prec = 120
        for g in range(40 if tier == "thorough" else 8):
            r = rng.fork(f"longdecimal{g}")
            names = ["chr1", "chr2"][: r.range(1, 2)]
            sizes = {n: 100000 for n in names}
            vlines, tlines = [], []
            for nm in names:
                pos = r.range(0, 50)
                for _ in range(r.range(3, 8)):
                    while True:
                        b = r.below(1 << 31)                      # positive finite f32 patterns with room above
                        if 1 <= ((b >> 23) & 0xFF) <= 0xFD:
                            break
                    x = struct.unpack(">f", struct.pack(">I", b))[0]
                    y = struct.unpack(">f", struct.pack(">I", b + 1))[0]
                    mid = (Decimal(x) + Decimal(y)) / 2
                    eps = Decimal(10) ** (mid.adjusted() - r.choice([30, 45, 60]))
                    up = r.chance(1, 2)
                    dec = mid + eps if up else mid - eps
                    neg = r.chance(1, 4)
                    bits = (b + 1 if up else b) | (0x80000000 if neg else 0)
                    txt = ("-" if neg else "") + format(dec, "f")
                    ln = r.choice([1, 3, 10])
                    vlines.append(f"V {nm} {pos} {pos + ln} {bits:08x}")
                    tlines.append(f"{nm}\t{pos}\t{pos + ln}\t{txt}")
                    pos += ln + r.choice([0, 2])
            o = bbgen.gen_options(r, tier)
            o.update({"src": r.choice(["file", "file", "par"]), "sort": "all", "zooms": r.choice(["none", "10"])})
            lines = [bbgen.opt_line(o)] + [f"CHROM {n} {sizes[n]}" for n in names] + vlines + ["TEXT " + ("\n".join(tlines) + "\n").encode().hex()]
            lines += [f"Q iv {nm} 0 {sizes[nm]}" for nm in names]
            out.append(CaseT(f"dec{g}", "wig", [], lines, {"long_decimal_values", "multi_chrom" if len(names) > 1 else "one_chrom", "text_roundtrip_bits"}))
        # items_per_slot beyond what a section's 16-bit item count can hold, with a chromosome that has more values than that
        for k in range(2 if tier == "thorough" else 1):
            r = rng.fork(f"ips_over_u16_{k}")
            n = 65536 + r.range(5, 4000)
            data = {"chr1": [(2 * i, 2 * i + 1, bbgen.f32bits(float(1 + i % 5))) for i in range(n)], "chr2": [(3, 9, bbgen.f32bits(2.0))]}
            sizes = {"chr1": 2 * n + 10, "chr2": 50}
            o = bbgen.gen_options(r, tier)
            o.update({"ips": r.choice([65536, 70000, 100000]), "zooms": "none", "src": "iter", "sort": "all"})
            lines = [bbgen.opt_line(o)] + bbgen.wig_lines(["chr1", "chr2"], sizes, data)
            lines += [f"Q iv chr1 0 {sizes['chr1']}", "Q iv chr2 0 50", f"Q iv chr1 {2 * 65535 - 3} {2 * 65535 + 7}"]
            out.append(CaseT(f"ipsbig{k}", "wig", [], lines, {"items_per_slot_over_u16", "multi_chrom", "multi_section"}))
        # genome-scale coordinates and non-round values (sections that do not compress), values longer than 2^24 bases
        for k in range(40 if tier == "thorough" else 8):
            r = rng.fork(f"genome{k}")
            names, sizes, data, tags = bbgen.gen_genome_scale(r, bed=False, value_mode=r.choice(["dec", "bits", "int"]))
            o = bbgen.gen_options(r, tier)
            o.update({"compress": 1 if k % 4 else 0, "ips": r.choice([64, 1024]), "zooms": r.choice(["none", "auto", "100000,400000"]), "src": r.choice(["iter", "file"]), "sort": "all",
                      "izs": r.choice([100000, 1000000])})      # automatic levels start coarse: a 10^8-base item at resolution 2 is 5·10^7 records
            lines = [bbgen.opt_line(o)] + bbgen.wig_lines(names, sizes, data) + [f"Q iv {n} 0 {sizes[n]}" for n in names]
            nm = names[-1]
            mid = data[nm][len(data[nm]) // 2]
            lines += [f"Q iv {nm} {mid[0]} {mid[1]}", f"Q iv {nm} {max(0, mid[0] - 1)} {mid[0] + 1}", f"Q iv {nm} {mid[1] - 1} {min(sizes[nm], mid[1] + 20000000)}"]
            out.append(CaseT(f"genome{k}", "wig", [], lines, tags | {"multi_section", f"src={o['src']}"} | ({"multi_chrom"} if len(names) > 1 else set())))
        for k in range(8 if tier == "thorough" else 2):
            out.append(bbgen.short_dest_case(rng.fork(f"shortdest{k}"), f"shortdest{k}", False))
        return out

    def model_extra(self, case, il):
        z = bbgen.first_line(il, "ZOOMS")
        return ["LEVELS" + (z[5:] if z else "")]

    def view(self, lines):
        return [l for l in lines if l.split(" ")[0] in ("R", "OPEN", "CHROMS", "HDR", "A")]

    def nontrivial(self, case, il):
        return bool(case.tags & {"multi_chrom", "multi_section"})

    def oracle(self, case, il):
        order, sizes, data = bbgen.case_input_wig(case)
        bad = bbgen.basic_ok(il)
        if bad:
            return bad
        if "CONC differ" in il:
            return "readers reopened from the written file and used concurrently (each on its own thread, together with the original) do not all return the written values"
        want = "CHROMS " + " ".join(f"{n}:{i}:{sizes[n]}" for i, n in enumerate(order))
        got = bbgen.first_line(il, "CHROMS")
        if got != want:
            return f"chromosome table `{got}`, expected `{want}`"
        ans = bbgen.answer_lines(il)
        for qi, q in enumerate(case.records("Q")):
            if q[1] == "iv" and int(q[3]) == 0 and int(q[4]) == sizes[q[2]]:
                a = ans.get(qi, "A missing")
                if not a.startswith(f"A {qi} ok"):
                    return f"full-span read of {q[2]} failed: `{a[:80]}`"
                got = bbgen.parse_iv(a)
                if got != data[q[2]]:
                    miss = [v for v in data[q[2]] if v not in got]
                    return (f"full-span read of {q[2]} returns {len(got)} of {len(data[q[2]])} values; "
                            f"first difference: {miss[0] if miss else [v for v in got if v not in data[q[2]]][:1]}")
        return None

    def extra_checks(self, rep, tier, rng, workdir):
        byte_level_check(self, rep, workdir)

    def known_match(self, finding, case, reason):
        if finding.get("id") == "D5-wig-zero-length-at-chromosome-ends":
            order, sizes, data = bbgen.case_input_wig(case)
            if "full-span read" not in reason:
                return False
            # every missing value must be a zero-length value sitting at position 0 or at the chromosome end
            import re
            m = re.search(r"first difference: \((\d+), (\d+),", reason)
            if not m:
                return False
            s, e = int(m.group(1)), int(m.group(2))
            return s == e and (s == 0 or s in sizes.values())
        return False


PROP = C01()
