"""C15 — merging and gap-filling value streams preserve the per-base signal."""
import os
import subprocess
from vlib import Prop, CaseT, f32bits, bits_f32, repo_bin, run_model, hexs

W = 50000


def gen_stream(rng, span_lo, span_hi, n, allow_zero, vals):
    """n sorted disjoint values inside [span_lo, span_hi)"""
    pts = sorted({rng.range(span_lo, span_hi) for _ in range(2 * n + 2)})
    out = []
    i = 0
    while i + 1 < len(pts) and len(out) < n:
        s, e = pts[i], pts[i + 1]
        if rng.chance(2, 3) and e > s:
            v = rng.choice(vals)
            if v == 0 and not allow_zero:
                v = 1
            out.append((s, e, v))
        i += 1 if rng.chance(1, 2) else 2
    return out


def per_base(items):
    """piecewise-constant map as sorted breakpoints -> dict position -> value on elementary intervals"""
    pts = sorted({p for (s, e, _) in items for p in (s, e)})
    return pts


def value_at(items, p):
    t = 0
    hit = False
    for (s, e, v) in items:
        if s <= p < e:
            t += v
            hit = True
    return t, hit


def parse_items(line):
    out = []
    for tok in line.split(" ")[1:]:
        s, e, b = tok.split(":")
        out.append((int(s), int(e), bits_f32(b)))
    return out


def bbgen_many():
    import bbgen
    return bbgen.many_contigs(300, 3)


class C15(Prop):
    pid = "C15"
    needs_repo_bins = True
    rule = ("in-process: merge_sections_many on 1..6 streams of sorted disjoint integer-valued values (values at base 0, "
            "values crossing the 50,000-base window boundaries, cancelling ± values, explicit zeros, streams of very "
            "different lengths), fill and fill_start_to_end on sorted disjoint values; command line: bigwigmerge on 1..3 "
            "input bigWigs (chromosomes missing from some inputs) for a grid of clip / adjust / threshold settings, output "
            "names out.bedGraph / out.bw / out.bigWig and --output-type, bedGraph vs bigWig output. "
            "Non-trivial = at least two streams overlapping on some base, or a value crossing a window boundary, or a "
            "gap to fill")
    removable = ("MV", "V")

    def cases(self, rng, tier):
        out = []
        n = 2500 if tier == "thorough" else 260
        vals = [1, 2, 3, -1, -2, 5, 0, 7]
        for k in range(n):
            ns = rng.range(1, 6)
            mode = rng.below(5)
            if mode == 0:
                lo, hi = 0, 40                         # dense small coordinates, base 0 included
            elif mode == 1:
                lo, hi = W - 30, W + 30                # across the first window boundary
            elif mode == 2:
                lo, hi = 0, 3 * W + 10                 # long values spanning several windows
            elif mode == 3:
                lo, hi = 2 * W - 5, 2 * W + 60
            else:
                lo, hi = 0, 200
            lines, tags = [], set()
            streams = []
            for s in range(ns):
                cnt = rng.range(0, 8) if mode != 2 else rng.range(0, 4)
                if s == 0 and cnt == 0:
                    cnt = 1
                if rng.chance(1, 6):
                    cnt = cnt * 4                      # very unequal stream lengths
                st = gen_stream(rng, lo, hi, cnt, True, vals)
                if mode == 0 and s == 0 and st and rng.chance(1, 2):
                    st[0] = (0, max(st[0][1], 1), st[0][2])
                streams.append(st)
                for (a, b, v) in st:
                    lines.append(f"MV {s} {a} {b} {f32bits(float(v))}")
                    if a // W != (b - 1) // W:
                        tags.add("crosses_window")
                    if a == 0:
                        tags.add("base0")
                    if v == 0:
                        tags.add("explicit_zero")
            allv = [x for st in streams for x in st]
            if any(a1 < b2 and a2 < b1 for i, (a1, b1, _) in enumerate(allv) for (a2, b2, _) in allv[i + 1:]) and ns > 1:
                tags.add("overlap")
            c = CaseT(f"mg{k}", "merge", [ns], lines, tags | {"merge"})
            out.append(c)
        nf = 1500 if tier == "thorough" else 200
        for k in range(nf):
            st = gen_stream(rng, 0, 60, rng.range(0, 7), True, vals)
            lines = [f"V {a} {b} {f32bits(float(v))}" for (a, b, v) in st]
            args = []
            tags = {"fill"}
            if rng.chance(1, 2):
                start = rng.range(0, st[0][0]) if st else rng.range(0, 10)
                end = rng.range(0, 80)
                args = [start, end]
                tags.add("fill_start_to_end")
            if st and (st[0][0] > (args[0] if args else 0) or any(st[i][1] < st[i + 1][0] for i in range(len(st) - 1))):
                tags.add("gap")
            out.append(CaseT(f"fl{k}", "fill", args, lines, tags))
        return out

    def nontrivial(self, case, il):
        return bool(case.tags & {"overlap", "crosses_window", "gap"})

    def oracle(self, case, il):
        if any(l.startswith(("R panic", "R hang", "R crashed")) for l in il):
            return "call did not return normally: " + il[0][:60]
        if case.kind == "merge":
            ins = [(int(l[2]), int(l[3]), bits_f32(l[4])) for l in case.records("MV")]
            outl = [l for l in il if l.startswith("M")]
            if not outl:
                return "no merge output"
            res = parse_items(outl[0])
            for i, (s, e, v) in enumerate(res):
                if not s < e:
                    return f"output item {s}-{e} is empty or reversed"
                if i and res[i - 1][1] > s:
                    return f"output items overlap or are out of order at {s}"
                if v == 0:
                    return f"zero-valued item {s}-{e} in the merged output"
            pts = sorted({p for (s, e, _) in ins + res for p in (s, e)})
            for p in pts:
                want, _ = value_at(ins, p)
                got, hit = value_at(res, p)
                if got != want:
                    return f"base {p}: inputs sum to {want}, output carries {got if hit else 'nothing'}"
            return None
        if case.kind == "fill":
            ins = [(int(l[1]), int(l[2]), bits_f32(l[3])) for l in case.records("V")]
            outl = [l for l in il if l.startswith("F")]
            if not outl:
                return "no fill output"
            res = parse_items(outl[0])
            start = int(case.args[0]) if case.args else 0
            pos = start
            rest = list(ins)
            for (s, e, v) in res:
                if s != pos:
                    return f"gap or overlap in the filled output at {pos} (next item starts at {s})"
                pos = e
                if rest and (s, e, v) == rest[0]:
                    rest.pop(0)
                elif v != 0:
                    return f"item {s}-{e}={v} is neither an input value nor a zero"
            if rest:
                return f"input value {rest[0]} is missing from the filled output"
            if case.args:
                want_end = max(int(case.args[1]), ins[-1][1] if ins else start)
                if (res and pos != want_end) or (not res and want_end > start):
                    return f"filled output ends at {pos}, expected {want_end}"
            return None
        return None

    # ---------------------------------------------------------------------------------------------
    def extra_checks(self, rep, tier, rng, workdir):
        """bigwigmerge at the command line vs the model (merge + clip/adjust/threshold per chromosome)."""
        d = os.path.join(workdir, "cli")
        os.makedirs(d, exist_ok=True)
        ncases = 40 if tier == "thorough" else 8
        chroms = [("chr1", 120000), ("chr2", 300), ("chrX", 70)]
        grid = [(None, None, None), (3, None, None), (None, 2, None), (None, None, 1), (2, 1, 2), (None, -1, 0)]
        model_cases, expect = [], {}
        runs = []
        for k in range(ncases):
            nin = rng.range(1, 3)
            inputs = []
            for i in range(nin):
                per = {}
                for (cn, cl) in chroms:
                    if i > 0 and rng.chance(1, 3):
                        continue                       # chromosome missing from this input
                    lo, hi = (0, 60) if cl < 1000 else rng.choice([(0, 80), (W - 20, W + 40), (0, 2 * W + 20)])
                    st = gen_stream(rng, lo, min(hi, cl), rng.range(1, 6), False, [1, 2, 3, 4, 6])
                    if st and rng.chance(1, 2) and cl < 1000:
                        st[0] = (0, st[0][1], st[0][2])
                    if st:
                        per[cn] = st
                if not per:
                    per["chr2"] = [(0, 5, 1)]
                inputs.append(per)
            clip, adj, thr = grid[k % len(grid)]
            runs.append((k, inputs, clip, adj, thr))
            for (cn, cl) in chroms:
                streams = [inp[cn] for inp in inputs if cn in inp]
                if not streams:
                    continue
                lines = [f"OPT clip={clip if clip is not None else 'none'} adjust={adj if adj is not None else 'none'} thr={thr if thr is not None else 0}"]
                for si, st in enumerate(streams):
                    for (a, b, v) in st:
                        lines.append(f"MV {si} {a} {b} {f32bits(float(v))}")
                model_cases.append(CaseT(f"cli{k}_{cn}", "merge", [len(streams)], lines))
        mo = run_model(model_cases, os.path.join(d, "model"))
        sizes = os.path.join(d, "chrom.sizes")
        with open(sizes, "w") as f:
            for (cn, cl) in chroms:
                f.write(f"{cn}\t{cl}\n")
        checked = 0
        seen_keys = set()
        for (k, inputs, clip, adj, thr) in runs:
            bws = []
            for i, per in enumerate(inputs):
                bg = os.path.join(d, f"in{k}_{i}.bedGraph")
                with open(bg, "w") as f:
                    for (cn, cl) in chroms:
                        for (a, b, v) in per.get(cn, []):
                            f.write(f"{cn}\t{a}\t{b}\t{v}\n")
                bw = os.path.join(d, f"in{k}_{i}.bw")
                p = subprocess.run([repo_bin("bedgraphtobigwig"), bg, sizes, bw], capture_output=True, text=True)
                if p.returncode != 0 or not os.path.exists(bw):
                    rep.notes.append(f"bedgraphtobigwig failed preparing a merge input: {p.stderr[-200:]}")
                    continue
                bws.append(bw)
            want = []
            for (cn, cl) in chroms:
                ml = mo.get(f"cli{k}_{cn}")
                if ml:
                    want += [(cn, s, e, v) for (s, e, v) in parse_items(ml[0])]
            flags = []
            if clip is not None:
                flags += ["--clip", str(clip)]
            if adj is not None:
                flags += [f"--adjust={adj}"]
            if thr is not None:
                flags += ["--threshold", str(thr)]
            variants = [("out.bedGraph", []), ("out.bw", []), ("out.bigWig", []), ("out.dat", ["--output-type", "bedgraph"]),
                        ("out2.dat", ["--output-type", "BigWig"])]
            if tier != "thorough":
                variants = [variants[k % 3], variants[3 + k % 2]] if k % 2 else variants[:3]
            for (oname, oflags) in variants:
                outp = os.path.join(d, f"r{k}_{oname}")
                # the inputs are named in every way the tool offers: -b each, one -l list, -b plus a list, several -l lists
                how = (k + len(oname)) % 5
                def lst(j, files):
                    lp = os.path.join(d, f"list{k}_{oname}_{j}.txt")
                    open(lp, "w").write("".join(f + "\n" for f in files))
                    return ["-l", lp]
                if how == 0 or len(bws) < 2:
                    named = sum([["-b", b] for b in bws], [])
                elif how == 1:
                    named = lst(0, bws)
                elif how == 2:
                    named = ["-b", bws[0]] + lst(0, bws[1:])
                elif how == 3:
                    h = (len(bws) + 1) // 2
                    named = lst(0, bws[:h]) + lst(1, bws[h:])
                else:
                    named = ["-b", bws[0]] + sum([lst(j, [b]) for j, b in enumerate(bws[1:])], [])
                rep.tag(("inputs_named_b_only", "inputs_named_one_list", "inputs_named_b_and_list", "inputs_named_two_lists", "inputs_named_b_and_many_lists")[how if len(bws) >= 2 else 0])
                cmd = [repo_bin("bigwigmerge")] + named + flags + oflags + [outp]
                try:
                    p = subprocess.run(cmd, capture_output=True, text=True, timeout=120)
                except subprocess.TimeoutExpired:
                    rep.violation(f"cli_merge_{k}_{oname}.txt", "bigwigmerge did not return within 120 s\n" + " ".join(cmd) + "\n")
                    continue
                rep.evals += 1
                checked += 1
                rep.tag("cli_" + oname.split(".")[-1] + ("_typed" if oflags else ""))
                is_bw = oname.endswith((".bw", ".bigWig")) or "BigWig" in oflags
                text = None
                if not os.path.exists(outp):
                    got = None
                else:
                    if is_bw:
                        conv = outp + ".bedGraph"
                        subprocess.run([repo_bin("bigwigtobedgraph"), outp, conv], capture_output=True, text=True)
                        text = open(conv).read() if os.path.exists(conv) else ""
                    else:
                        text = open(outp).read()
                    got = []
                    for ln in text.splitlines():
                        t = ln.split("\t")
                        if len(t) >= 4:
                            got.append((t[0], int(t[1]), int(t[2]), float(t[3])))
                # order of chromosomes in the tool's output is its own (sorted map); compare per chromosome
                w = sorted(want)
                if got is None:
                    reason = f"no output file was produced (exit {p.returncode}): {p.stderr.strip()[:200]}"
                elif sorted(got) != w:
                    g = sorted(got)
                    diff = next(((x, y) for x, y in zip(g + [None] * len(w), w + [None] * len(g)) if x != y), None)
                    reason = f"output differs from the per-base sum with clip/adjust/threshold applied: first difference got {diff[0]} expected {diff[1]}"
                else:
                    reason = None
                if reason:
                    body = ("# bigwigmerge at the command line\n# command: " + " ".join(cmd) + "\n# " + reason + "\n" +
                            "".join(f"# input {i}: {per}\n" for i, per in enumerate(inputs)) +
                            f"# clip={clip} adjust={adj} threshold={thr}\n# expected (model): {w[:12]}\n# got: {None if got is None else sorted(got)[:12]}\n")
                    key = "cli:" + ("nofile" if got is None else "differs")
                    if key not in seen_keys:
                        seen_keys.add(key)
                        rep.violation(f"cli_merge_{k}_{oname}_{key.split(':')[1]}.txt", body)
        # an input with more chromosomes than the index's default fan-out (the index gets an upper level whose nodes span
        # chromosome boundaries) merged with a small one: per-base sums on every chromosome
        names, sizes_m, data_m = bbgen_many()
        szp = os.path.join(d, "many.sizes")
        open(szp, "w").write("".join(f"{n}\t{sizes_m[n]}\n" for n in names))
        a_bg, b_bg = os.path.join(d, "manyA.bedGraph"), os.path.join(d, "manyB.bedGraph")
        with open(a_bg, "w") as f:
            for n in names:
                for (s_, e_, v) in data_m[n]:
                    f.write(f"{n}\t{s_}\t{e_}\t{v}\n")
        some = [names[i] for i in (0, 5, 130, 255, 256, 299)]
        with open(b_bg, "w") as f:
            for n in some:
                f.write(f"{n}\t0\t{data_m[n][0][1]}\t2\n")
        for x in (a_bg, b_bg):
            subprocess.run([repo_bin("bedgraphtobigwig"), x, szp, x[:-9] + ".bw"], capture_output=True, text=True, timeout=300)
        outp = os.path.join(d, "many_out.bedGraph")
        p = subprocess.run([repo_bin("bigwigmerge"), "-b", a_bg[:-9] + ".bw", "-b", b_bg[:-9] + ".bw", outp], capture_output=True, text=True, timeout=300)
        want = {}
        for n in names:
            per = {}
            for (s_, e_, v) in data_m[n]:
                for q in range(s_, e_):
                    per[q] = per.get(q, 0) + v
            if n in some:
                for q in range(0, data_m[n][0][1]):
                    per[q] = per.get(q, 0) + 2
            want[n] = per
        got = {}
        if os.path.exists(outp):
            for ln in open(outp).read().splitlines():
                t = ln.split("\t")
                for q in range(int(t[1]), int(t[2])):
                    got.setdefault(t[0], {})[q] = float(t[3])
        bad = next((n for n in names if got.get(n, {}) != {q: float(v) for q, v in want[n].items()}), None)
        checked += 1
        rep.tag("cli_many_chromosomes")
        if bad is not None:
            rep.violation("cli_merge_many_chromosomes.txt",
                          f"# bigwigmerge of a {len(names)}-chromosome bigWig (default options) with a 6-chromosome one\n# command: {' '.join(p.args)}\n"
                          f"# chromosome {bad}: output carries {sorted(got.get(bad, {}).items())[:8]}, the per-base sum of the inputs is {sorted(want[bad].items())[:8]}\n"
                          f"# exit {p.returncode} {p.stderr.strip()[:200]}\n")
        # more inputs than the tool opens at once (it merges in batches of fewer than a thousand descriptors): 980 and 1955 inputs —
        # the small 6-chromosome file named again and again in a list — must sum like any other number of inputs
        small_bw = b_bg[:-9] + ".bw"
        if os.path.exists(small_bw):
            for count in (980, 1955) if tier == "thorough" else (980,):
                lp = os.path.join(d, f"many_inputs_{count}.txt")
                open(lp, "w").write((small_bw + "\n") * count)
                outp = os.path.join(d, f"many_inputs_{count}.bedGraph")
                try:
                    p = subprocess.run([repo_bin("bigwigmerge"), "-l", lp, outp], capture_output=True, text=True, timeout=600)
                except subprocess.TimeoutExpired:
                    rep.violation(f"cli_merge_{count}_inputs.txt", f"# bigwigmerge -l <{count} inputs> did not return within 600 s\n")
                    continue
                checked += 1
                rep.tag("cli_more_inputs_than_descriptors_per_batch")
                got = {}
                if os.path.exists(outp):
                    for ln in open(outp).read().splitlines():
                        t = ln.split("\t")
                        for q in range(int(t[1]), int(t[2])):
                            got.setdefault(t[0], {})[q] = float(t[3])
                want = {n: {q: 2.0 * count for q in range(0, data_m[n][0][1])} for n in some}
                if got != want:
                    badn = next((n for n in some if got.get(n) != want[n]), "?")
                    rep.violation(f"cli_merge_{count}_inputs.txt",
                                  f"# bigwigmerge of {count} inputs (one list file naming {small_bw} {count} times)\n# command: {' '.join(p.args)}\n"
                                  f"# chromosome {badn}: output carries {sorted(got.get(badn, {}).items())[:4]}, the per-base sum of the inputs is {sorted(want.get(badn, {}).items())[:4]}\n"
                                  f"# exit {p.returncode} {p.stderr.strip()[:200]}\n")
        rep.coverage["cli_merge_runs"] = checked


PROP = C15()
