"""C08 — bigBed zoom levels are faithful reductions of coverage depth."""
import bbgen
from props.C07 import C07


class C08(C07):
    pid = "C08"
    bed = True
    rule = ("bigBed inputs (disjoint, overlapping, nested, identical and zero-length entries; gaps of every size relative to the "
            "resolution), manual and automatic zoom lists, single and two pass; for every stored level and chromosome the "
            "full-span zoom query plus boundary range queries; records are compared with the model and recomputed "
            "independently from the per-base coverage depth; plus zoom queries on bigBeds from the independent encoder of C10 (either byte order). Non-trivial = a stored level with two or more records")

    def gen_input(self, r):
        return bbgen.gen_bed_input(r, with_rest=False, lengths=(100, 300, 1000, 5000))


PROP = C08()
