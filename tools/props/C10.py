"""C10 — any well-formed BBI file is read correctly, whoever wrote it."""
import os
import shutil
import struct
from vlib import CaseT, BUILD
from wbprop import WigBedProp
import bbgen
import bbi_codec


def f32_of(x):
    return struct.unpack(">f", struct.pack(">f", x))[0]


def gen_wig_spec(r):
    nchrom = r.choice([1, 1, 2, 3, 6, 7, 9, 13, 20])          # up to chromosome trees of four levels at block size 2
    names = bbgen.pick_chroms(r, nchrom)
    chroms = [[n, r.choice([200, 1000, 5000])] for n in names]
    sections = []
    for ci, (n, size) in enumerate(chroms):
        pos = r.range(0, 20)
        for _ in range(r.range(1, 5)):
            ty = r.choice([1, 1, 2, 3])
            cnt = r.range(1, 6)
            if ty == 1:
                items = []
                for _ in range(cnt):
                    pos += r.choice([0, 0, 1, 5, 12])
                    ln = r.choice([1, 2, 5, 10, 20])
                    if pos + ln > size:
                        break
                    items.append([pos, pos + ln, float(r.choice(bbgen.INT_VALUES + [0.5, -1.25]))])
                    pos += ln
                if items:
                    sections.append(dict(chrom=ci, type=1, items=items))
            elif ty == 2:
                span = r.choice([1, 2, 5])
                items = []
                for _ in range(cnt):
                    pos += r.choice([0, 1, 5, 12])
                    if pos + span > size:
                        break
                    items.append([pos, float(r.choice(bbgen.INT_VALUES))])
                    pos += span
                if items:
                    sections.append(dict(chrom=ci, type=2, span=span, items=items))
            else:
                span = r.choice([1, 2, 4])
                step = span + r.choice([0, 0, 1, 6])
                if pos + step * (cnt - 1) + span > size:
                    continue
                sections.append(dict(chrom=ci, type=3, start=pos, step=step, span=span,
                                     values=[float(r.choice(bbgen.INT_VALUES)) for _ in range(cnt)]))
                pos += step * (cnt - 1) + span
    if sections and r.chance(1, 6):
        # a long run of identical values (UCSC fixed-step sections over a stretch of zeros): a block that compresses very well
        ci = len(chroms) - 1
        last_end = max([0] + [x for s_ in sections if s_["chrom"] == ci for x in
                              ([it[1] if s_["type"] == 1 else it[0] + s_.get("span", 1) for it in s_["items"]] if "items" in s_
                               else [s_["start"] + s_["step"] * (len(s_["values"]) - 1) + s_["span"]])])
        n = r.choice([700, 1000, 20000])
        chroms[ci][1] = max(chroms[ci][1], last_end + n + 10)
        sections.append(dict(chrom=ci, type=3, start=last_end + 3, step=1, span=1, values=[float(r.choice([0, 0, 5]))] * n))
    if not sections:
        sections = [dict(chrom=0, type=1, items=[[0, 5, 1.0]])]
    return chroms, sections


def gen_bed_spec(r):
    nchrom = r.choice([1, 2, 3, 5, 7, 13])
    names = bbgen.pick_chroms(r, nchrom)
    chroms = [[n, r.choice([200, 1000, 5000])] for n in names]
    sections = []
    for ci, (n, size) in enumerate(chroms):
        ents = bbgen.gen_bed_entries(r, size, r.choice(["disjoint", "nested", "long_then_short", "mixed"]), 10)
        ents = [[s, e, rest.encode("utf-8")] for (s, e, rest) in ents if not (s == 0 and e == 0)]
        per = r.choice([1, 2, 3, 8])
        for i in range(0, len(ents), per):
            sections.append(dict(chrom=ci, items=ents[i:i + per]))
        if ci == len(chroms) - 1 and r.chance(1, 6):
            # several hundred byte-identical entries in one block: compresses extremely well
            lo = max([0] + [it[0] for it in ents])
            sections.append(dict(chrom=ci, items=[[lo, min(size, lo + 10), b"same\tname"]] * r.choice([400, 700, 3000])))
    if not sections:
        sections = [dict(chrom=0, items=[[1, 5, "x"]])]
    return chroms, sections


def foreign_case(r, cid, bed=None, readers=("plain", "cached"), counter=None):
    """one file from the independent encoder (None when the independent judge rejects it: generator drift)"""
    bed = r.chance(1, 3) if bed is None else bed
    chroms, sections = gen_bed_spec(r) if bed else gen_wig_spec(r)
    spec = dict(endian=r.choice(["little", "big"]), version=r.choice([1, 2, 3, 4, 4]), compress=r.chance(1, 2),
                chroms=chroms, sections=sections,
                chrom_block_size=r.choice([2, 3, 256]) if len(chroms) > 1 else r.choice([1, 2, 256]),
                rtree_block_size=r.choice([2, 2, 3, 5, 256]), rtree_layout=r.choice(list(bbi_codec.LAYOUTS)),
                items_per_slot=r.choice([8, 64, 1024]))
    spec["items_per_slot"] = max([spec["items_per_slot"]] + [len(s_.get("values", s_.get("items", []))) for s_ in sections])
    kind = "bigbed" if bed else "bigwig"
    if len(chroms) > 1 and r.chance(1, 3):
        # chromosome ids that do NOT follow the name order of the chromosome tree (legal: ids only have to be
        # unique and dense; the data and the index are ordered by id). bigtools' own writer never produces this.
        perm = list(range(len(chroms)))
        while perm == sorted(perm):
            perm = [perm.pop(r.below(len(perm))) for _ in range(len(perm))]
        spec["ids"] = perm
        for s_ in sections:
            s_["chrom"] = perm[s_["chrom"]]
        sections.sort(key=lambda s_: s_["chrom"])
        spec["sections"] = sections
    if r.chance(2, 3):
        try:
            spec["zooms"] = bbi_codec._zooms_for(kind, spec, r.choice([[8], [8, 32], [16, 64, 256]]))
        except Exception:
            spec["zooms"] = []
    else:
        spec["zooms"] = []
    if spec["zooms"] and len(chroms) > 1 and r.chance(1, 2):
        # the UCSC writers' layout: zoom records packed into blocks ACROSS chromosome boundaries (bigtools never does this)
        for z in spec["zooms"]:
            z["split_on_chrom"] = False
            z["items_per_slot"] = r.choice([3, 8, 64])
    try:
        data = bbi_codec.encode_bigbed(spec) if bed else bbi_codec.encode_bigwig(spec)
        problems = bbi_codec.check(data)
    except Exception as e:
        problems = [f"encoder failed: {e}"]
        data = b""
    if problems:
        return None
    dec = bbi_codec.decode(data)
    names = [c[0] for c in chroms]
    sizes = {c[0]: c[1] for c in chroms}
    content = dec["entries"] if bed else dec["values"]
    ids = {c["name"]: c["id"] for c in dec["chroms"]}
    data_by_name = {nm: [tuple(x[:3]) for x in content.get(ids[nm], [])] for nm in names}
    lines = [f"OPT reader={r.choice(list(readers))}", "FILEHEX " + data.hex()]
    for t in dec["inflate_table"]:
        lines.append(f"INFLATE {t[0]} {t[1]} {t[2] or '-'}")
    for nm in names:
        lines.append(f"Q iv {nm} 0 {sizes[nm]}")
    kinds = ["iv", "iv"] + ([] if bed else ["vals"]) + (["zoom"] if spec["zooms"] else [])
    present = [nm for nm in names if data_by_name[nm]] or names
    lines += bbgen.gen_queries(r, present, sizes, data_by_name, kinds, 8, zoom_levels=len(spec["zooms"]), strict_nonempty=bed)
    for lv in range(len(spec["zooms"])):
        lines.append(f"Q zoom {present[0]} 0 {sizes[present[0]]} #{lv}")
    tags = {kind, spec["endian"], *(["zoom_blocks_span_chromosomes"] if any(not z.get("split_on_chrom", True) for z in spec["zooms"]) else []), "ids_permuted" if spec.get("ids") else "ids_in_name_order", "zlib" if spec["compress"] else "raw", "layout_" + spec["rtree_layout"],
            f"version_{spec['version']}", f"fanout_{spec['rtree_block_size']}", f"chromtree_{spec['chrom_block_size']}"}
    if not bed:
        for s in sections:
            tags.add(f"section_type_{s['type']}")
    if dec["index"]["depth"] > 1:
        tags.add("multi_level_index")
    if spec["endian"] == "big" or dec["index"]["depth"] > 1 or any(s.get("type", 1) != 1 for s in sections):
        tags.add("nt")
    c = CaseT(cid, "readbed" if bed else "readwig", [], lines, tags)
    c.spec = spec
    return c


def sparse_case(r, cid):
    """a bigWig whose data, indexes and zoom levels sit beyond a hole of more than 4 GiB (file offsets that do not fit 32 bits), handed
    to the readers as a sparse image (`SEG <offset> <hex>` lines; the harness serves zeros in between). Its content is that of the
    same file without the hole, which travels along as FILEHEX for the judge, the decoder and the reader model."""
    c = foreign_case(r, cid, bed=False, readers=("plain", "cached"))
    if c is None:
        return None
    spec = dict(c.spec)
    spec["gap_before_data"] = r.choice([1 << 32, (1 << 32) + 0x12345678, (3 << 32) + 7, (1 << 40) + 5])
    try:
        segs = bbi_codec.encode_bigwig(spec)
    except Exception:
        return None
    lines = []
    for l in c.lines:
        t = l.split(" ")
        if t[0] == "Q" and t[1] not in ("iv", "vals"):
            continue                                   # the sparse source answers interval and per-base queries
        lines.append(l)
    lines += [f"SEG {off} {data.hex()}" for (off, data) in segs]
    return CaseT(cid, "readwig", [], lines, set(c.tags) | {"data_beyond_4GiB", "nt"})


class C10(WigBedProp):
    pid = "C10"
    view_tags = ("OPEN", "CHROMS", "ZOOMS", "A")
    removable = ("Q",)
    rule = ("files emitted by the independent Python encoder (tools/bbi_codec.py) over the cross product {little, big endian} × {zlib, "
            "raw} × {bigWig section types 1, 2, 3 mixed; bigBed} × chromosome-tree block sizes {1, 2, 3, 256} × R-tree fan-outs {2, 3, 5, "
            "256} × node placements {level order, depth first, reversed, index before data} × versions 1..4, each first accepted by the "
            "independent well-formedness judge; chromosome table, summary, interval / per-base / zoom queries on the boundary set through "
            "the real plain and caching readers vs the decoded content; interval queries also vs the byte-level Lean reader model on the "
            "same bytes (inflated blocks supplied by the independent decoder). Non-trivial = big-endian, or a multi-level index, "
            "or a non-bedGraph section")

    def cases(self, rng, tier):
        n = 1200 if tier == "thorough" else 220
        out = []
        self.rejected_by_judge = 0
        for k in range(n):
            c = foreign_case(rng.fork(k), f"x{k}")
            if c is None:
                self.rejected_by_judge += 1          # generator drift: never handed to the readers
                continue
            out.append(c)
        for k in range(60 if tier == "thorough" else 12):
            c = sparse_case(rng.fork(f"sparse{k}"), f"sp{k}")
            if c is not None:
                out.append(c)
        return out

    def nontrivial(self, case, il):
        return "nt" in case.tags

    def model_extra(self, case, il):
        return []

    def compare(self, case, il, ml):
        # the reader model answers interval queries (and the chromosome table); everything else is judged by the oracle
        keep = {qi for qi, q in enumerate(case.records("Q")) if q[1] == "iv"}

        def sel(lines):
            out = []
            for l in lines:
                t = l.split(" ")
                if t[0] in ("OPEN", "CHROMS", "ZOOMS"):
                    out.append(l)
                elif t[0] == "A" and int(t[1]) in keep:
                    out.append(l)
            return out
        a, b = sel(il), sel(ml)
        if a == b:
            return None
        for x, y in zip(a + ["<missing>"] * len(b), b + ["<missing>"] * len(a)):
            if x != y:
                return f"implementation `{x[:200]}` reader model on the same bytes `{y[:200]}`"
        return "different"

    def oracle(self, case, il):
        dec = bbi_codec.decode(bytes.fromhex(case.records("FILEHEX")[0][1]))
        if bbgen.first_line(il, "OPEN") != "OPEN ok":
            return f"the reader does not open a well-formed file: `{bbgen.first_line(il, 'OPEN') or (il[0] if il else '')}`"
        want = "CHROMS " + " ".join(f"{c['name']}:{c['id']}:{c['size']}" for c in sorted(dec["chroms"], key=lambda c: c["id"]))
        if bbgen.first_line(il, "CHROMS") != want:
            return f"chromosome table `{bbgen.first_line(il, 'CHROMS')}`, the file encodes `{want}`"
        wz = "ZOOMS" + "".join(f" {z['reduction']}" for z in dec["zooms"])
        if bbgen.first_line(il, "ZOOMS") != wz:
            return f"zoom levels `{bbgen.first_line(il, 'ZOOMS')}`, the file encodes `{wz}`"
        sm = bbgen.first_line(il, "SUM")
        if sm and sm != "SUM err":
            t = sm.split(" ")
            s = dec["summary"]
            got = [int(t[2])] + [bbgen.fnum_to_float(x) for x in t[3:7]]
            wants = [0, 0.0, 0.0, 0.0, 0.0] if s is None else [s["bases_covered"], s["min"], s["max"], s["sum"], s["sum_squares"]]
            if got != wants:
                return f"summary {got}, the file encodes {wants}"
        bed = dec["kind"] == "bigbed"
        ans = bbgen.answer_lines(il)
        for qi, q in enumerate(case.records("Q")):
            a = ans.get(qi, f"A {qi} missing")
            s, e = int(q[3]), int(q[4])
            if not a.startswith(f"A {qi} ok"):
                return f"query {q[1]} {q[2]}:{s}-{e} on a well-formed file failed: `{a[:80]}`"
            if q[1] == "iv":
                got = bbgen.parse_iv(a)
                if bed:
                    must = [(x[0], x[1], x[2] or "-") for x in bbi_codec.query(dec, q[2], s, e)]
                    may = [(x[0], x[1], x[2] or "-") for x in bbi_codec.query_touching(dec, q[2], s, e)]
                    rest = list(got)
                    for m in must:
                        if m in rest:
                            rest.remove(m)
                        else:
                            return f"query {q[2]}:{s}-{e}: encoded entry {m[0]}-{m[1]} overlaps the range but was not returned"
                    pool = list(may)
                    for g in got:
                        if g in pool:
                            pool.remove(g)
                        else:
                            return f"query {q[2]}:{s}-{e}: returned entry {g[0]}-{g[1]} is not an encoded entry touching the range"
                else:
                    want_iv = [(x[0], x[1], x[2]) for x in bbi_codec.query(dec, q[2], s, e)]
                    if got != want_iv:
                        return (f"query {q[2]}:{s}-{e} returned {len(got)} values, the file encodes {len(want_iv)} overlapping it; "
                                f"first difference {next(((g, w) for g, w in zip(got + [None] * len(want_iv), want_iv + [None] * len(got)) if g != w), None)}")
            elif q[1] == "vals":
                cells = []
                for tok in a.split(" ")[3:]:
                    v, nrep = tok.split("*")
                    cells += [v] * int(nrep)
                wantc = ["nan"] * (e - s)
                for (vs, ve, b) in [(x[0], x[1], x[2]) for x in bbi_codec.query(dec, q[2], s, e)]:
                    for p in range(vs, ve):
                        wantc[p - s] = b
                if cells != wantc:
                    return f"per-base values {q[2]}:{s}-{e} differ from the encoded values"
            elif q[1] == "zoom":
                k = int(q[5][1:])
                if k >= len(dec["zooms"]):
                    continue
                cid = next(c["id"] for c in dec["chroms"] if c["name"] == q[2])
                wantz = [rz for rz in dec["zooms"][k]["records"] if rz[0] == cid and rz[2] >= s and rz[1] <= e]
                strict = [rz for rz in wantz if rz[2] > s and rz[1] < e]
                got = bbgen.parse_zoom(a)
                gotn = [(int(g[0]), int(g[1]), int(g[2]), int(g[3])) + tuple(bbgen.fnum_to_float(x) for x in g[4:8]) for g in got if g]
                wn = [tuple(rz[:4]) + tuple(float(x) for x in rz[4:8]) for rz in wantz]
                sn = [tuple(rz[:4]) + tuple(float(x) for x in rz[4:8]) for rz in strict]
                for m in sn:
                    if m not in gotn:
                        return f"zoom query {q[2]}:{s}-{e} level {dec['zooms'][k]['reduction']} misses the encoded record {m[1]}-{m[2]}"
                for g in gotn:
                    if g not in wn:
                        return f"zoom query {q[2]}:{s}-{e}: returned record {g[:4]} {g[4:]} is not an encoded record meeting the range"
        return None

    def extra_checks(self, rep, tier, rng, workdir):
        rep.coverage["generated_files_rejected_by_the_independent_judge"] = getattr(self, "rejected_by_judge", 0)


PROP = C10()
