"""C07 — bigWig zoom levels are faithful reductions of the data."""
from vlib import CaseT
from wbprop import WigBedProp, byte_level_check
import bbgen


class C07(WigBedProp):
    pid = "C07"
    view_tags = ("R", "OPEN", "ZOOMS", "A")
    bed = False
    rule = ("bigWig inputs with small integer values; gaps shorter than, equal to and longer than the resolution, values spanning "
            "several records, values ending exactly on a record boundary, 1–6 chromosomes; manual zoom lists (sorted, distinct) "
            "and automatic levels (small initial size), single and two pass, items_per_slot ∈ {1,2,3,1024}; for every stored level "
            "and chromosome the full-span zoom query plus boundary range queries; plus zoom queries on files from the independent encoder of C10 (big-endian zoom records and indexes). Non-trivial = at least one stored level with "
            "two or more records on some chromosome")

    def gen_input(self, r):
        # chromosome lengths kept ≤ 5000: the model's tiler appends to a list (quadratic in the number of records)
        return bbgen.gen_wig_input(r, value_mode="int", lengths=(50, 100, 257, 1000, 5000))

    def cases(self, rng, tier):
        n = 2000 if tier == "thorough" else 260
        out = []
        for k in range(n):
            r = rng.fork(k)
            names, sizes, data, tags = self.gen_input(r)
            if not self.bed and r.chance(1, 4):
                bbgen.inject_zero_length_wig(r, names, sizes, data, tags)
            o = bbgen.gen_options(r, tier, zoom_mode=r.choice(["manual", "manual", "manual", "autosmall"]))
            o["ips"] = r.choice([1, 2, 3, 1024])
            if r.chance(1, 12):
                # manual lists a user may pass: unsorted, duplicates, a zero, more than ten sizes
                o["zooms"] = r.choice(["40,10", "10,10", "0", "0,8", "20,5,80", "2,3,4,5,6,7,8,9,10,11,12,13", "16,16,64"])
                tags.add("odd_manual_zoom_list")
            if k % 40 == 7:
                # deterministically: a manual list that is not ascending, through the two-pass writer and through the single-pass one
                o["zooms"] = ["40,10", "20,5,80", "16,16,4"][(k // 40) % 3]
                o["pass"] = 2 - (k // 120) % 2
                tags.add("odd_manual_zoom_list")
            names = bbgen.free_chrom_order(r, names, o, tags, 1, 6)
            if self.bed:
                lines = [bbgen.opt_line(o)] + bbgen.bed_lines(names, sizes, data)
            else:
                lines = [bbgen.opt_line(o)] + bbgen.wig_lines(names, sizes, data)
            nlev = len(o["zooms"].split(",")) if o["zooms"] not in ("auto", "none") else 3
            # half of the files through the caching reader, and for half of those the narrow queries come BEFORE the full-span
            # ones: a query then finds its first zoom block in the cache and has to fetch the following ones
            o_reader = r.choice(["plain", "cached"])
            narrow_first = r.chance(1, 2)
            lines[0] = lines[0] + f" reader={o_reader}"
            tags.add("reader_" + o_reader)
            narrow = bbgen.gen_queries(r, names, sizes, data, ["zoom"], 4, zoom_levels=nlev, ips=o["ips"])
            if narrow_first:
                lines += narrow
                for lv in range(nlev):
                    for nm in names:
                        lines.append(f"Q zoom {nm} {r.below(max(1, sizes[nm] // 4))} {sizes[nm]} #{lv}")
            for lv in range(nlev):
                for nm in names:
                    lines.append(f"Q zoom {nm} 0 {sizes[nm]} #{lv}")
            if not narrow_first:
                lines += narrow
            tags.add("zooms_" + ("auto" if o["zooms"] == "auto" else "manual"))
            out.append(CaseT(f"z{k}", "bed" if self.bed else "wig", [], lines, self.common_tags(o, names, data, tags)))
        for k in range(8 if tier == "thorough" else 2):
            out.append(bbgen.short_dest_case(rng.fork(f"shortdest{k}"), f"shortdest{k}", self.bed, zoom_queries=True))
        # clusters of one-base items spaced 100,000 bases apart: the number of zoom records (and of zoom blocks) stays the same from the
        # finest automatic level up to the first resolution wider than the spacing — levels are pruned in the MIDDLE of the pyramid
        for g in range(2 if tier == "thorough" else 1):
            r = rng.fork(f"clusters{g}")
            ncl = r.range(2200, 2600)
            names, sizes = ["chr1", "chr2"], {"chr1": 300000000, "chr2": 1000}
            if self.bed:
                data = {"chr1": [(c_ * 100000 + 2 * j, c_ * 100000 + 2 * j + 1, "") for c_ in range(ncl) for j in range(10)], "chr2": [(5, 50, "")]}
            else:
                data = {"chr1": [(c_ * 100000 + 2 * j, c_ * 100000 + 2 * j + 1, bbgen.f32bits(float(1 + (c_ + j) % 5))) for c_ in range(ncl) for j in range(10)],
                        "chr2": [(5, 50, bbgen.f32bits(2.0))]}
            o = {"compress": r.choice([0, 1]), "ips": 1024, "bs": 256, "zooms": "auto", "izs": 160, "nzooms": 10, "pass": 1 + g, "inmem": g, "rt": "mt", "threads": 2,
                 "chan": 100, "src": "iter", "sort": "all"}
            lines = [bbgen.opt_line(o)] + (bbgen.bed_lines(names, sizes, data) if self.bed else bbgen.wig_lines(names, sizes, data))
            lines += [f"Q zoom chr1 0 {sizes['chr1']} #{lv}" for lv in range(6)] + [f"Q zoom chr1 150000000 150400000 #{lv}" for lv in range(6)]
            out.append(CaseT(f"clusters{g}", "bed" if self.bed else "wig", [], lines, {"bed" if self.bed else "wig", "levels_pruned_mid_pyramid", "multi_chrom", "nt", "zooms_auto"}))
        if self.bed:
            # a deep pile-up: more than 4096 entries over the same bases — the first depth whose square is not a single-precision number
            for g in range(3 if tier == "thorough" else 1):
                r = rng.fork(f"pileup{g}")
                depth = r.choice([4097, 5001, 6007])
                names, sizes = ["chr1", "chr2"], {"chr1": 1000, "chr2": 500}
                data = {"chr1": [(100, 260, "")] * depth + [(300, 310, "")], "chr2": [(5, 50, "")]}
                # resolutions that are not powers of two: depth² · bases then needs its own rounding (with 16 or 64 bases the product
                # of a rounded square happens to round to the same single-precision number)
                o = {"compress": 1, "ips": 1024, "bs": 256, "zooms": "10,40,160", "pass": 1 + g % 2, "inmem": 0, "rt": "mt", "threads": 2, "chan": 100,
                     "src": "iter", "sort": "all"}
                lines = [bbgen.opt_line(o)] + bbgen.bed_lines(names, sizes, data) + [f"Q zoom {n} 0 {sizes[n]} #{lv}" for lv in (0, 1, 2) for n in names]
                out.append(CaseT(f"pileup{g}", "bed", [], lines, {"bed", "pile_up_deeper_than_4096", "multi_chrom", "nt"}))
        # zoom levels of files no bigtools writer produces (big-endian zoom records and indexes, other layouts)
        out += self.foreign_cases(rng.fork("foreign"), tier, self.bed, 50, 300)
        return out

    def nontrivial(self, case, il):
        return any(l.startswith("A ") and l.count(" | ") >= 2 for l in il)

    def oracle(self, case, il):
        if case.kind in ("readwig", "readbed"):
            return self.foreign_oracle(case, il)
        return bbgen.basic_ok(il) or bbgen.oracle_zoom(case, il, self.bed)


    def extra_checks(self, rep, tier, rng, workdir):
        byte_level_check(self, rep, workdir)


PROP = C07()
