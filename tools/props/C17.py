"""C17 — per-region bigWig statistics and values are exact and thread-count independent."""
import math
import os
import struct
import subprocess
from vlib import CaseT, repo_bin
from wbprop import WigBedProp
import bbgen


def region_stats(vals, s, e):
    """independent definition from the stored values clipped to [s, e)"""
    cl = [(max(a, s), min(b, e), v) for (a, b, v) in vals if b > s and a < e]
    bases = sum(b - a for a, b, _ in cl)
    sm = sum((b - a) * v for a, b, v in cl)
    size = e - s
    if bases == 0:
        return size, 0, 0.0, None, None
    return size, bases, sm, min(v for _, _, v in cl), max(v for _, _, v in cl)


def fdiv(a, b):
    try:
        return a / b
    except ZeroDivisionError:
        return float("nan") if a == 0 else math.copysign(float("inf"), a)


class C17(WigBedProp):
    pid = "C17"
    needs_repo_bins = True
    view_tags = ("R", "OPEN", "A")
    rule = ("bigWigs written as in C01 with small integer values; per file 8–14 BED regions on chromosomes present in the file: "
            "inside a value, straddling values, in gaps, across the whole chromosome, empty regions; stats_for_bed_item in-process "
            "(size, covered bases, sum, min, max vs model; mean0 and mean recomputed as the same IEEE quotient); command line: "
            "bigwigaverageoverbed -t 1,2,3,8,16 × name modes {column 4, column 5, interval, none} with names containing blanks and empty columns × --min-max and bigwigvaluesoverbed, rows "
            "compared with -t 1 and with the oracle. Non-trivial = a region that cuts at least one value or covers nothing")

    def cases(self, rng, tier):
        n = 1500 if tier == "thorough" else 200
        out = []
        for k in range(n):
            r = rng.fork(k)
            names, sizes, data, tags = bbgen.gen_wig_input(r, value_mode="int")
            o = bbgen.gen_options(r, tier)
            o["reader"] = r.choice(["plain", "cached"])
            lines = [bbgen.opt_line(o)] + bbgen.wig_lines(names, sizes, data)
            qs = bbgen.gen_queries(r, names, sizes, data, ["stats"], r.range(8, 14), ips=o["ips"])
            lines += qs
            for nm in names[:2]:
                lines.append(f"Q stats {nm} 0 {sizes[nm]}")
            tags.add("nt")
            out.append(CaseT(f"a{k}", "wig", [], lines, self.common_tags(o, names, data, tags)))
        return out

    def view(self, lines):
        out = []
        for l in lines:
            t = l.split(" ")[0]
            if t in self.view_tags:
                out.append(l.split(" | ")[0] if t == "A" else l)      # means are judged by the oracle
        return out

    def oracle(self, case, il):
        bad = bbgen.basic_ok(il)
        if bad:
            return bad
        order, sizes, data = bbgen.case_input_wig(case)
        ans = bbgen.answer_lines(il)
        for qi, q in enumerate(case.records("Q")):
            if q[1] != "stats":
                continue
            a = ans.get(qi, "A missing")
            if not a.startswith(f"A {qi} ok"):
                return f"statistics for {q[2]}:{q[3]}-{q[4]} failed: `{a[:60]}`"
            s, e = int(q[3]), int(q[4])
            vals = [(x, y, bbgen.bits_f32(b)) for (x, y, b) in data[q[2]]]
            size, bases, sm, mn, mx = region_stats(vals, s, e)
            left, right = a.split(" | ")
            t = left.split(" ")
            got = (int(t[3]), int(t[4]), bbgen.fnum_to_float(t[5]))
            if got[0] != size or got[1] != bases or got[2] != float(sm):
                return f"region {q[2]}:{s}-{e}: reported size/bases/sum {got}, the stored values give {(size, bases, sm)}"
            gmn, gmx = bbgen.fnum_to_float(t[6]), bbgen.fnum_to_float(t[7])
            if bases == 0:
                if not (math.isnan(gmn) and math.isnan(gmx)):
                    return f"region {q[2]}:{s}-{e} covers nothing but min/max are {gmn}/{gmx} (expected NaN)"
            elif gmn != mn or gmx != mx:
                return f"region {q[2]}:{s}-{e}: min/max {gmn}/{gmx}, the overlapping values give {mn}/{mx}"
            m0, m1 = (struct.unpack(">d", bytes.fromhex(x))[0] for x in right.split(" "))
            w0 = fdiv(float(sm), float(size))
            if not (m0 == w0 or (math.isnan(m0) and math.isnan(w0))):
                return f"region {q[2]}:{s}-{e}: mean over the region {m0}, sum/size = {w0}"
            if bases == 0:
                if not math.isnan(m1):
                    return f"region {q[2]}:{s}-{e} covers nothing but the mean over covered bases is {m1}"
            elif m1 != float(sm) / float(bases):
                return f"region {q[2]}:{s}-{e}: mean over covered bases {m1}, sum/bases = {float(sm) / float(bases)}"
        return None

    def extra_checks(self, rep, tier, rng, workdir):
        d = os.path.join(workdir, "cli")
        os.makedirs(d, exist_ok=True)
        nrun = 0
        nfiles = 8 if tier == "thorough" else 3
        for k in range(nfiles + 1):
            r = rng.fork(k)
            names, sizes, data, _ = bbgen.gen_wig_input(r, nchrom=4, value_mode="int", maxn=30)
            foreign = (k == nfiles)
            if foreign:
                # a bigWig as the UCSC tools write it from input in natural order: the chromosome tree is sorted by name while the
                # ids follow the order of appearance (chr1 = 0, chr2 = 1, chr10 = 2, chrX = 3) — from the independent encoder
                nat = ["chr1", "chr2", "chr10", "chrX"]
                data = {nn: data[o] for nn, o in zip(nat, names)}
                sizes = {nn: sizes[o] for nn, o in zip(nat, names)}
                names = nat
            if k == 2:
                # 300 small chromosomes, default options: more data sections than the index's fan-out, so the index has an upper
                # level whose entries span chromosome boundaries
                names, sizes, d3 = bbgen.many_contigs(300, 4)
                data = {n: [(a, b, bbgen.f32bits(float(v))) for (a, b, v) in d3[n]] for n in names}
            sz = os.path.join(d, f"s{k}.sizes")
            with open(sz, "w") as f:
                for n in sizes:
                    f.write(f"{n}\t{sizes[n]}\n")
            bg = os.path.join(d, f"i{k}.bedGraph")
            with open(bg, "w") as f:
                for n in names:
                    for (s, e, b) in data[n]:
                        f.write(f"{n}\t{s}\t{e}\t{bbgen.bits_f32(b)}\n")
            bw = os.path.join(d, f"i{k}.bw")
            if foreign:
                import bbi_codec
                tree = sorted(names)                                  # chr1, chr10, chr2, chrX
                spec = dict(endian=r.choice(["little", "big"]), version=4, compress=True, chroms=[[n, sizes[n]] for n in tree],
                            ids=[nat.index(n) for n in tree], chrom_block_size=2, rtree_block_size=r.choice([2, 256]), rtree_layout="level_order",
                            items_per_slot=8, zooms=[],
                            sections=sorted([dict(chrom=nat.index(n), type=1, items=[[a, b, bbgen.bits_f32(v)] for (a, b, v) in data[n][i:i + 8]])
                                             for n in names for i in range(0, len(data[n]), 8)], key=lambda s_: s_["chrom"]))
                img = bbi_codec.encode_bigwig(spec)
                bad = bbi_codec.check(img)
                if bad:
                    rep.notes.append("C17: the independent encoder's file was rejected by the independent judge: " + bad[0][:100])
                    continue
                open(bw, "wb").write(img)
                rep.tag("foreign_file_ids_in_order_of_appearance")
            else:
                subprocess.run([repo_bin("bedgraphtobigwig"), bg, sz, bw], capture_output=True)
            nreg = r.choice([3, 40, 200]) if k != 2 else 400          # fewer regions than threads, and many more
            if k == 1:
                nreg = 6000                        # ≈ 150 KiB of BED text: every worker's chunk spans several buffer refills
            regs = []
            for i in range(nreg):
                n = r.choice(names)
                pts = bbgen.boundary_points(data[n], sizes[n])
                a, b = r.choice(pts), r.choice(pts)
                if a > b:
                    a, b = b, a
                if a == b:
                    b = min(sizes[n], a + 1)
                    if a == b:
                        a -= 1
                # names as users write them: plain, with blanks inside (the BED columns are TAB separated), and — when the
                # name is taken from column 5 — an EMPTY column 4 before it
                nm4 = r.choice([f"reg{i}", f"reg{i}", f"gene {i} (predicted)", f"x  y{i}", ""]) if nreg <= 1000 else f"reg{i}"
                regs.append((n, a, b, nm4, f"s{i % 7} q" if (nreg <= 1000 and i % 5 == 0) else f"s{i % 7}"))
            bed = os.path.join(d, f"r{k}.bed")
            with open(bed, "w") as f:
                wides = {}
                for i, (n, a, b, name, sc) in enumerate(regs):
                    # k = 0: some rows carry thousands of further columns (a bed12+ record with long block lists): lines longer
                    # than the 8 KiB buffer the BED file is read and split into per-thread chunks through
                    wide = ("\t" + "\t".join(str(j) for j in range(r.choice([2500, 4000, 9000])))) if (k == 0 and i % max(2, nreg // 3) == 1) else ""
                    if wide:
                        wides[i] = wide[1:].split("\t")
                    f.write(f"{n}\t{a}\t{b}\t{name}\t{sc}{wide}\n")
            for mode in (["-n", "4"], ["-n", "5"], ["-n", "interval"], ["-n", "none"], []):
                if nreg > 1000 and mode != ["-n", "4"]:
                    continue
                for mm in ([], ["--min-max"]):
                    ref = None
                    for t in (1, 2, 3, 8, 16):
                        outp = os.path.join(d, f"o{k}_{'_'.join(mode + mm).replace('-', '')}_{t}.txt")
                        p = subprocess.run([repo_bin("bigwigaverageoverbed"), bw, bed, outp, "-t", str(t)] + mode + mm,
                                           capture_output=True, text=True, timeout=120)
                        nrun += 1
                        txt = open(outp).read() if os.path.exists(outp) else None
                        if t == 1:
                            ref = txt
                            bad = self.check_rows(txt, regs, data, mode, bool(mm), wides)
                            if bad and not any("aob_rows" in v[0] for v in rep.violations):
                                rep.violation(f"aob_rows_{k}.txt", f"# bigwigaverageoverbed {' '.join(mode + mm)} -t 1 on {bw} {bed}\n# {bad}\n")
                        elif txt != ref and not any("aob_threads" in v[0] for v in rep.violations):
                            rep.violation(f"aob_threads_{k}_{t}.txt",
                                          f"# bigwigaverageoverbed {' '.join(mode + mm)} -t {t} differs from -t 1 on {bw} {bed} ({nreg} regions)\n"
                                          f"# exit {p.returncode} stderr {p.stderr[-200:]}\n")
            # values over bed
            if nreg > 1000:
                continue
            outp = os.path.join(d, f"v{k}.txt")
            subprocess.run([repo_bin("bigwigvaluesoverbed"), bw, bed, outp], capture_output=True, text=True, timeout=120)
            nrun += 1
            if os.path.exists(outp):
                rows = open(outp).read().splitlines()
                if len(rows) != len(regs) and not any("vob" in v[0] for v in rep.violations):
                    rep.violation(f"vob_{k}.txt", f"# bigwigvaluesoverbed wrote {len(rows)} rows for {len(regs)} regions\n")
                for row, (n, a, b, name, sc) in zip(rows, regs):
                    vals = [float(x) for x in row.split("\t")] if row else []        # default: tab-delimited, no names
                    want = [0.0] * (b - a)
                    for (x, y, bits) in data[n]:
                        for pbase in range(max(x, a), min(y, b)):
                            want[pbase - a] = bbgen.bits_f32(bits)
                    if vals != want and not any("vob" in v[0] for v in rep.violations):
                        rep.violation(f"vob_{k}.txt", f"# bigwigvaluesoverbed row for {n}:{a}-{b}: values {vals[:10]}… differ from the stored per-base values {want[:10]}…\n")
        rep.coverage["cli_runs"] = nrun
        rep.evals += nrun

    @staticmethod
    def check_rows(txt, regs, data, mode, minmax, wides=None):
        if txt is None:
            return "no output"
        rows = txt.splitlines()
        if len(rows) != len(regs):
            return f"{len(rows)} rows for {len(regs)} input rows"
        for ri, (row, (n, a, b, name, sc)) in enumerate(zip(rows, regs)):
            t = row.split("\t")
            if mode == ["-n", "interval"]:
                wname, rest = f"{n}:{a}-{b}", t[1:]
                if t[0] != wname:
                    return f"row name `{t[0]}`, expected `{wname}`"
            elif mode == ["-n", "none"]:
                more = (wides or {}).get(ri, [])          # the whole input row is echoed, further columns included
                if t[:5 + len(more)] != [n, str(a), str(b), name, sc] + more:
                    return f"row starts `{t[:5]}`…, expected the input row"
                rest = t[5 + len(more):]
            elif mode == ["-n", "5"]:
                if t[0] != sc:
                    return f"row name `{t[0]}`, expected column 5 of the input row `{sc}`"
                rest = t[1:]
            else:
                if t[0] != name:
                    return f"row name `{t[0]}`, expected `{name}`"
                rest = t[1:]
            vals = [(x, y, bbgen.bits_f32(bits)) for (x, y, bits) in data[n]]
            size, bases, sm, mn, mx = region_stats(vals, a, b)
            want = [float(size), float(bases), float(sm), fdiv(float(sm), float(size)),
                    float("nan") if bases == 0 else float(sm) / float(bases)]
            if minmax:
                want += [float("nan") if mn is None else float(mn), float("nan") if mx is None else float(mx)]
            got = [float(x) for x in rest]
            if len(got) != len(want):
                return f"row `{row}` has {len(got)} statistics columns, expected {len(want)}"
            for g, w in zip(got, want):
                if math.isnan(w) != math.isnan(g) or (not math.isnan(w) and abs(g - w) > 0.00051):
                    return f"row `{row}`: statistics {got}, expected {want}"
        return None


PROP = C17()
