"""C06 — whole-file summary statistics equal the statistics of the written data."""
from vlib import CaseT
from wbprop import WigBedProp, byte_level_check
import bbgen


class C06(WigBedProp):
    pid = "C06"
    view_tags = ("R", "OPEN", "SUM", "ITEMCOUNT")
    rule = ("bigWig inputs with small integer values (every intermediate of the statistics exactly representable) and bigBed "
            "inputs with disjoint, partially overlapping, nested, identical and zero-length entries, 1–6 chromosomes, both "
            "pass modes and all option records; the total summary and item count are compared with the model and with an "
            "independent per-base recomputation. Non-trivial = bigBed input with overlapping entries, or several chromosomes")

    def cases(self, rng, tier):
        n = 2500 if tier == "thorough" else 300
        out = []
        for k in range(n):
            r = rng.fork(k)
            o = bbgen.gen_options(r, tier)
            if k % 8 == 5:
                # genome-scale coordinates: chromosomes of up to 2^32 - 1 bases, single values / entries longer than 2^24 bases
                bed = r.chance(1, 2)
                names, sizes, data, tags = bbgen.gen_genome_scale(r, bed=bed, value_mode="int", nitems=r.choice([3, 8, 30]))
                o["zooms"] = r.choice(["none", "50000000", "16777216,67108864"])
                lines = [bbgen.opt_line(o)] + (bbgen.bed_lines(names, sizes, data) if bed else bbgen.wig_lines(names, sizes, data))
                kind = "bed" if bed else "wig"
                if bed and any(a[1] > b[0] for nm in names for a, b in zip(data[nm], data[nm][1:])):
                    tags.add("nt")
            elif r.chance(1, 2):
                names, sizes, data, tags = bbgen.gen_wig_input(r, value_mode="int")
                if len(names) > 1 and r.chance(1, 2):
                    # cross-chromosome extremes: a chromosome's (min, max) relates to the earlier ones' in every way —
                    # widening both sides, one side, or neither — so each arm of the merge of summaries is exercised
                    for ci, nm in enumerate(names):
                        shape = r.choice(["both", "both", "low", "high", "inside"])
                        lo = -(ci + 1) * 7 if shape in ("both", "low") else -1
                        hi = (ci + 1) * 9 if shape in ("both", "high") else 1
                        vals = list(data[nm])
                        if len(vals) >= 2:
                            i, j = r.below(len(vals)), r.below(len(vals))
                            if i == j:
                                j = (i + 1) % len(vals)
                            vals[i] = (vals[i][0], vals[i][1], bbgen.f32bits(float(lo)))
                            vals[j] = (vals[j][0], vals[j][1], bbgen.f32bits(float(hi)))
                            data[nm] = vals
                    tags.add("cross_chrom_extremes")
                lines = [bbgen.opt_line(o)] + bbgen.wig_lines(names, sizes, data)
                kind = "wig"
            else:
                names, sizes, data, tags = bbgen.gen_bed_input(r, with_rest=False)
                lines = [bbgen.opt_line(o)] + bbgen.bed_lines(names, sizes, data)
                kind = "bed"
                if any(a[1] > b[0] for nm in names for a, b in zip(data[nm], data[nm][1:])):
                    tags.add("nt")
            if kind == "bed" and k % 8 != 5 and k % 5 == 2:
                # the last entry of a chromosome reaches PAST the declared chromosome length (the writer accepts it: only a start at
                # or beyond the length is refused; the readers return it): its bases count like any others
                nm = names[k % len(names)]
                last = data[nm][-1]
                data[nm] = data[nm][:-1] + [(last[0], sizes[nm] + r.choice([1, 7, 50, 75]), last[2])]
                lines = [bbgen.opt_line(o)] + bbgen.bed_lines(names, sizes, data)
                tags.add("entry_reaches_past_the_chromosome_end")
            tags.add(kind)
            out.append(CaseT(f"s{k}", kind, [], lines, self.common_tags(o, names, data, tags)))
        return out

    def nontrivial(self, case, il):
        return bool(case.tags & {"nt", "multi_chrom"})

    def oracle(self, case, il):
        return bbgen.basic_ok(il) or bbgen.oracle_summary(case, il, case.kind == "bed")

    def extra_checks(self, rep, tier, rng, workdir):
        byte_level_check(self, rep, workdir)


PROP = C06()
