"""C04 — bigBed range queries miss no overlapping entry and return no disjoint one."""
from vlib import CaseT
from wbprop import WigBedProp, byte_level_check
import bbgen
from props import C10 as c10


class C04(WigBedProp):
    pid = "C04"
    rule = ("files written as in C02 with items_per_slot ∈ {1,2,3} and block_size ∈ {2,3} so that long-then-short layouts give "
            "blocks and index nodes whose largest end is not the last one; 6–10 queries per file on the boundary set with "
            "s < e, plain / caching / fresh readers; and bigBeds from the independent encoder of C10 (either byte order, any index "
            "layout and fan-out, permuted chromosome ids), judged against the encoded content. Non-trivial = a file with a block whose largest end is not its last "
            "entry's end")

    def cases(self, rng, tier):
        n = 2500 if tier == "thorough" else 300
        out = []
        for k in range(n):
            r = rng.fork(k)
            names, sizes, data, tags = bbgen.gen_bed_input(
                r, styles=["long_then_short", "long_then_short", "nested", "mixed", "dup", "disjoint"])
            o = bbgen.gen_options(r, tier)
            o["ips"] = r.choice([1, 2, 3])
            o["bs"] = r.choice([2, 3])
            o["reader"] = r.choice(["plain", "cached", "fresh", "freshcached"])
            names = bbgen.free_chrom_order(r, names, o, tags)
            past = None
            if k % 6 == 3:
                # an entry that reaches PAST the declared chromosome length (legal: only a start at or beyond the length is refused) and
                # queries that lie beyond the length but inside that entry
                nm = names[k % len(names)]
                i_ = r.below(len(data[nm]))
                e0 = data[nm][i_]
                data[nm] = data[nm][:i_] + [(e0[0], sizes[nm] + r.choice([30, 400, 1000]), e0[2])] + data[nm][i_ + 1:]
                past = (nm, data[nm][i_][1])
                tags.add("entry_reaches_past_the_chromosome_end")
            lines = [bbgen.opt_line(o)] + bbgen.bed_lines(names, sizes, data)
            lines += bbgen.gen_queries(r, names, sizes, data, ["iv"], r.range(6, 10), ips=o["ips"], strict_nonempty=True)
            if past:
                nm, pe = past
                L = sizes[nm]
                lines += [f"Q iv {nm} {L} {pe}", f"Q iv {nm} {L + 1} {L + 2}", f"Q iv {nm} {pe - 1} {pe}", f"Q iv {nm} {pe} {pe + 5}", f"Q iv {nm} {L - 1} {L + 1}"]
            if "max_end_not_last" in tags:
                tags.add("nt")
            out.append(CaseT(f"q{k}", "bed", [], lines, self.common_tags(o, names, data, tags)))
        # bigBeds no bigtools writer produces: big-endian, any index layout / fan-out, permuted chromosome ids (the readers'
        # byte-order arms and index decoders are reached only by such files)
        for k in range(400 if tier == "thorough" else 70):
            c = c10.foreign_case(rng.fork(f"foreign{k}"), f"f{k}", bed=True, readers=("plain", "cached", "fresh", "freshcached"))
            if c is not None:
                c.tags.add("foreign_file")
                out.append(c)
        return out

    def nontrivial(self, case, il):
        return "nt" in case.tags

    def oracle(self, case, il):
        if case.kind == "readbed":
            return c10.PROP.oracle(case, il)
        return bbgen.basic_ok(il) or bbgen.oracle_bed_queries(case, il)

    def compare(self, case, il, ml):
        if case.kind == "readbed":
            return c10.PROP.compare(case, il, ml)
        return super().compare(case, il, ml)

    def model_extra(self, case, il):
        if case.kind == "readbed":
            return []
        return super().model_extra(case, il)

    def extra_checks(self, rep, tier, rng, workdir):
        byte_level_check(self, rep, workdir)


PROP = C04()
