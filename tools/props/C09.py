"""C09 — every written file is a well-formed BBI file for an independent decoder."""
import os
from vlib import CaseT, run_model
from wbprop import WigBedProp, byte_level_check
import bbgen
import bbi_codec


class C09(WigBedProp):
    pid = "C09"
    view_tags = ("R", "OPEN")
    rule = ("bigWig and bigBed files written by the real writers over the inputs and option records of C01/C02 (compression on/off, "
            "items per slot, block size, zooms auto/none/manual, passes, buffering, runtime, sources, chromosome order); every file "
            "is decoded and judged by the independent Python decoder (tools/bbi_codec.py: header, chromosome tree, every R-tree "
            "with span containment, every block a zlib stream within the advertised buffer holding ≤ itemsPerSlot items of one "
            "chromosome, data count, total summary and zoom records recomputed from the decoded data) and its decoded records "
            "must equal the input; every uncompressed file is also judged by the Lean certificate (wfFile) and the two judges "
            "must agree; plus files with 257–520 chromosomes (more than the default block size of the chromosome tree and the indexes). Non-trivial = file with several sections, several chromosomes or at least one zoom level")

    def cases(self, rng, tier):
        n = 2500 if tier == "thorough" else 240
        out = []
        for k in range(n):
            r = rng.fork(k)
            o = bbgen.gen_options(r, tier)
            sort_start = r.chance(1, 8)
            if r.chance(1, 2):
                names, sizes, data, tags = bbgen.gen_wig_input(r, value_mode=r.choice(["int", "int", "bits"]), sorted_names=not sort_start)
                lines = bbgen.wig_lines(names, sizes, data)
                kind = "wig"
            else:
                names, sizes, data, tags = bbgen.gen_bed_input(r, sorted_names=not sort_start)
                lines = bbgen.bed_lines(names, sizes, data)
                kind = "bed"
            if sort_start:
                o["sort"] = "start"
                if o["src"] == "par":
                    o["src"] = "file"
                tags.add("chrom_order_free")
            tags.add(kind)
            tags.add("zooms_" + str(o["zooms"]).split(",")[0])
            out.append(CaseT(f"f{k}", kind, [], [bbgen.opt_line(o)] + lines, self.common_tags(o, names, data, tags)))
        # chromosomes whose encoded sections fill the per-chromosome BufWriter (8 KiB) several times, written concurrently
        # under seeded delays: the output file is handed to a chromosome in the MIDDLE of its writes (the staging buffer's
        # mid-stream path), in temp-file and in-memory staging
        for k3 in range(24 if tier == "thorough" else 6):
            r = rng.fork(f"spill{k3}")
            kind = "wig" if k3 % 2 == 0 else "bed"
            names = ["chrA", "chrB", "chrC", "chrD"][: r.choice([2, 3, 4])]
            sizes = {n: 400000 for n in names}
            if kind == "bed":
                data = {n: [(i * 9, i * 9 + 5, "name%d\t%d" % (i, i % 1000)) for i in range(r.range(1500, 3000))] for n in names}
                lines = bbgen.bed_lines(names, sizes, data)
            else:
                data = {n: [(i * 9, i * 9 + 4, bbgen.f32bits(float(1 + (i * 7919 + j) % 251))) for i in range(r.range(2500, 5000))] for j, n in enumerate(names)}
                lines = bbgen.wig_lines(names, sizes, data)
            o = {"compress": r.choice([0, 1]), "ips": r.choice([64, 1024]), "bs": r.choice([5, 256]), "zooms": r.choice(["10,40", "none", "auto"]),
                 "pass": r.choice([1, 2]), "inmem": 0 if k3 % 3 else 1, "rt": "mt", "threads": r.choice([2, 4]), "chan": r.choice([0, 1, 100]),
                 "src": r.choice(["iter", "par"]), "sort": "all", "delay": r.range(1, 1 << 30)}
            out.append(CaseT(f"spill{k3}", kind, [], [bbgen.opt_line(o)] + lines, self.common_tags(o, names, data, {kind, "chromosomes_spill_bufwriter"})))
        # a zoom pyramid as deep as the data allows: one item per section, items thinning out geometrically over a 4 Gb chromosome, so
        # that every automatic level has fewer sections than the one before and none is pruned — with max_zooms above the ten slots
        # of the zoom directory
        for k5, kind in enumerate(("bed", "wig", "bed")):
            r = rng.fork(f"pyramid{k5}")
            pos = [0] + [200 * 4 ** j for j in range(13)]
            names, sizes = ["chr1"], {"chr1": 4294967295}
            o = bbgen.gen_options(r, tier)
            o.update({"ips": 1, "bs": r.choice([2, 256]), "zooms": "auto", "izs": r.choice([64, 160]), "nzooms": r.choice([11, 12, 15]),
                      "pass": 1 + (k5 + (1 if tier == "thorough" else 0)) % 2, "src": "iter", "sort": "all", "compress": 0})
            if kind == "wig":
                data = {"chr1": [(p_, p_ + 50, bbgen.f32bits(float(1 + i % 5))) for i, p_ in enumerate(pos)]}
                lines = bbgen.wig_lines(names, sizes, data)
            else:
                # entries with a long name: the data must stay larger than twice a zoom level for the level to be kept
                data = {"chr1": [(p_, p_ + 1, "n" * 60 + "\t%d" % i) for i, p_ in enumerate(pos)]}
                lines = bbgen.bed_lines(names, sizes, data)
            out.append(CaseT(f"pyramid{k5}", kind, [], [bbgen.opt_line(o)] + lines, self.common_tags(o, names, data, {kind, "deep_zoom_pyramid"})))
        # items_per_slot beyond the 16-bit item count of a bigWig section header, with a chromosome that has more items than that
        for k4, kind in enumerate(("wig", "bed") if tier == "thorough" else ("wig",)):
            r = rng.fork(f"ipsbig{k4}")
            n_ = 65536 + r.range(5, 3000)
            names, sizes = ["chr1", "chr2"], {"chr1": 2 * n_ + 10, "chr2": 50}
            o = bbgen.gen_options(r, tier)
            o.update({"ips": r.choice([65536, 70000, 100000]), "zooms": "none", "src": "iter", "sort": "all"})
            if kind == "wig":
                data = {"chr1": [(2 * i, 2 * i + 1, bbgen.f32bits(float(1 + i % 5))) for i in range(n_)], "chr2": [(3, 9, bbgen.f32bits(2.0))]}
                lines = bbgen.wig_lines(names, sizes, data)
            else:
                data = {"chr1": [(2 * i, 2 * i + 1, "") for i in range(n_)], "chr2": [(3, 9, "")]}
                lines = bbgen.bed_lines(names, sizes, data)
            out.append(CaseT(f"ipsbig{k4}", kind, [], [bbgen.opt_line(o)] + lines, self.common_tags(o, names, data, {kind, "items_per_slot_over_u16"})))
        # more chromosomes than the default block size of the chromosome tree and of the indexes (256)
        for k2, kind in enumerate(("wig", "bed") if tier != "thorough" else ("wig", "bed", "wig", "bed")):
            r = rng.fork(f"manychroms{k2}")
            nch = r.choice([257, 300, 520])
            names = [f"scaffold_{i:04d}" for i in range(nch)]
            sizes = {n: 1000 + i for i, n in enumerate(names)}
            o = bbgen.gen_options(r, tier)
            o.update({"bs": r.choice([256, 256, 5]), "src": r.choice(["iter", "file"]), "sort": "all"})
            if kind == "wig":
                data = {n: [(5 + i % 7, 20 + i % 11, bbgen.f32bits(float(1 + i % 5)))] + ([(40, 45, bbgen.f32bits(2.0))] if i % 3 == 0 else []) for i, n in enumerate(names)}
                lines = bbgen.wig_lines(names, sizes, data)
            else:
                data = {n: [(5 + i % 7, 30 + i % 11, "e%d" % i)] + ([(12, 45, "f")] if i % 3 == 0 else []) for i, n in enumerate(names)}
                lines = bbgen.bed_lines(names, sizes, data)
            out.append(CaseT(f"many{k2}", kind, [], [bbgen.opt_line(o)] + lines, self.common_tags(o, names, data, {kind, "more_chromosomes_than_block_size"})))
        return out

    def nontrivial(self, case, il):
        z = bbgen.first_line(il, "ZOOMS")
        return bool(case.tags & {"multi_chrom", "multi_section"}) or bool(z and len(z.split(" ")) > 1)

    def oracle(self, case, il):
        bad = bbgen.basic_ok(il)
        if bad:
            return bad
        path = os.path.join(self._outdir, case.id + ".bin")
        try:
            data = open(path, "rb").read()
        except OSError:
            return "the written file was not kept"
        sorted_keys = case.opts().get("sort", "all") == "all"
        # non-integral values: the statistics are compared with single-precision tolerance by the decoder
        try:
            problems = bbi_codec.check(data, sorted_chrom_keys=sorted_keys, zoom_tol=1e-4, summary_tol=1e-6)
        except Exception as e:                                   # a decoder crash is a bug of /verif, not a verdict
            return None if isinstance(e, MemoryError) else f"independent decoder failed on the written file: {type(e).__name__}: {str(e)[:150]}"
        if problems:
            return "independent decoder: " + problems[0][:220] + (f" (+{len(problems) - 1} more)" if len(problems) > 1 else "")
        dec = bbi_codec.decode(data)
        if case.kind == "wig":
            order, sizes, indata = bbgen.case_input_wig(case)
            got = {i: [tuple(x[:3]) for x in dec["values"].get(i, [])] for i in range(len(order))}
            want = {i: [(s, e, b) for (s, e, b) in indata[n]] for i, n in enumerate(order)}
        else:
            order, sizes, indata = bbgen.case_input_bed(case)
            got = {i: [tuple(x[:3]) for x in dec["entries"].get(i, [])] for i in range(len(order))}
            want = {i: [(s, e, (r if r != "-" else "")) for (s, e, r) in indata[n]] for i, n in enumerate(order)}
        if got != want:
            for i in want:
                if got.get(i) != want[i]:
                    return (f"decoding the file independently yields {len(got.get(i, []))} records on {order[i]}, the input has "
                            f"{len(want[i])}; first difference: {next((w for w in want[i] if w not in got.get(i, [])), None)}")
        chroms = [(c["name"], c["id"], c["size"]) for c in dec["chroms"]]
        if sorted(chroms, key=lambda c: c[1]) != [(n, i, sizes[n]) for i, n in enumerate(order)]:
            return f"decoded chromosome table {chroms} differs from the input's chromosomes in order of appearance"
        return None

    def extra_checks(self, rep, tier, rng, workdir):
        byte_level_check(self, rep, workdir)
        """second judge: the Lean certificate on every uncompressed file; the judges must agree"""
        outdir = os.path.join(workdir, "main", "out")
        stage = []
        for c in self._last_cases:
            if c.opts().get("compress") == "0" and (self._last_impl.get(c.id) or ["x"])[0] == "R ok":
                path = os.path.join(outdir, c.id + ".bin")
                if os.path.exists(path):
                    stage.append(CaseT("wf_" + c.id, "wfwig" if c.kind == "wig" else "wfbed", [], [f"FILE {path}"]))
                    # the theorem-carrying model file (fileOf / bedFileOf) against these very bytes
                    zl = any(l.split(" ")[0] in ("V", "E") and l.split(" ")[2] == l.split(" ")[3] for l in c.lines)
                    if not zl:
                        stage.append(CaseT("fo_" + c.id, "fileof", [c.kind], [f"FILE {path}"] + c.lines))
        mo = run_model(stage, os.path.join(workdir, "wf"))
        acc = 0
        cases = {c.id: c for c in self._last_cases}
        fo_eq = fo_ne = 0
        fo_first = None
        for sc in stage:
            ml = mo.get(sc.id, ["no answer"])
            if sc.kind == "fileof":
                if ml and ml[0] == "FILEOF eq":
                    fo_eq += 1
                else:
                    fo_ne += 1
                    fo_first = fo_first or (sc.id[3:], ml[0] if ml else "")
                continue
            if ml and ml[0].startswith("WF ok"):
                acc += 1
            elif not any("lean_wf" in v[0] for v in rep.violations):
                cid = sc.id[3:]
                rep.violation(f"lean_wf_{cid}.case", cases[cid].text() +
                              f"# the Lean well-formedness certificate rejects the written file: {ml[0] if ml else ''}\n"
                              f"# (the Python decoder accepted it: a disagreement between the two judges, or a defect the Python judge misses)\n")
        rep.coverage["files_judged_by_python_decoder"] = len(self._last_cases)
        rep.coverage["model_file_equals_real_bytes"] = {"equal": fo_eq, "different": fo_ne}
        if fo_first:
            rep.notes.append(f"(B) fileOf/bedFileOf differs from the real bytes on {fo_ne} files (first: {fo_first}); observables agree, so this is a note")
        rep.coverage["files_judged_by_lean_certificate"] = len(stage) - fo_eq - fo_ne
        rep.coverage["files_accepted_by_lean_certificate"] = acc
        rep.evals += len(stage)


PROP = C09()
