"""C02 — bigBed write/read round trip is exact, including overlapping entries and autoSql."""
from vlib import CaseT, hexs
from wbprop import WigBedProp, byte_level_check
import bbgen

AUTOSQLS = [None, None, "BED3", "gen", "custom"]
CUSTOM = 'table hg18KGchr7\n"UCSC Genes for chr7 with color plus GeneSymbol"\n(\nstring  chrom;\t"Reference sequence chromosome or scaffold"\nuint    chromStart;\t"Start position of feature on chromosome"\nuint    chromEnd;\t"End position of feature on chromosome"\nstring  name;\t"Name of gene"\nuint    score;\t"Score"\n)\n'


class C02(WigBedProp):
    pid = "C02"
    view_tags = ("R", "OPEN", "CHROMS", "HDR", "A", "ITEMCOUNT", "AUTOSQL")
    rule = ("seeded bigBed inputs: 1–5 chromosomes, layouts disjoint / overlapping / nested / duplicates / zero-length / one very "
            "long entry followed by short ones, rest fields of 0..9 tab-separated UTF-8 columns; autoSql none / BED3 / generated / "
            "custom; × option records as in C01; queries: the full span of every chromosome + boundary ranges. "
            "Non-trivial = several sections on a chromosome or several chromosomes")

    def cases(self, rng, tier):
        n = 2500 if tier == "thorough" else 260
        out = []
        for k in range(n):
            r = rng.fork(k)
            names, sizes, data, tags = bbgen.gen_bed_input(r)
            o = bbgen.gen_options(r, tier)
            names = bbgen.free_chrom_order(r, names, o, tags)
            if r.chance(1, 12):
                # a zero-length entry at position 0: the reader takes (0,0) for padding (D5)
                nm = r.choice(names)
                data[nm].insert(0, (0, 0, "zero"))
                tags.add("entry_0_0")
            lines = [bbgen.opt_line(o)] + bbgen.bed_lines(names, sizes, data)
            a = r.choice(AUTOSQLS)
            if a == "BED3":
                pass
            elif a == "gen":
                ncol = r.range(0, 12)
                fields = ["   string name;\t\"Name\"\n", "   uint score;\t\"Score\"\n", "   char[1] strand;\t\"Strand\"\n"]
                text = 'table bed\n"Browser Extensible Data"\n(\n    string chrom;       "chrom"\n    uint   chromStart;  "start"\n    uint   chromEnd;    "end"\n'
                for i in range(ncol):
                    text += fields[i] if i < len(fields) else f"   lstring field{i + 4};\t\"Undocumented field\"\n"
                text += ")"
                lines.append("AUTOSQL " + hexs(text))
                tags.add("autosql_generated")
            elif a == "custom":
                lines.append("AUTOSQL " + hexs(CUSTOM))
                tags.add("autosql_custom")
            for nm in names:
                lines.append(f"Q iv {nm} 0 {sizes[nm]}")
            lines += bbgen.gen_queries(r, names, sizes, data, ["iv"], 2, ips=o["ips"])
            out.append(CaseT(f"b{k}", "bed", [], lines, self.common_tags(o, names, data, tags)))
        # items_per_slot beyond what a section's 16-bit item count can hold, with more entries than that on a chromosome (D22)
        for k in range(1):
            r = rng.fork(f"ips_over_u16_{k}")
            n = 65536 + r.range(5, 3000)
            data = {"chr1": [(2 * i, 2 * i + 1, "") for i in range(n)], "chr2": [(3, 9, "x\ty")]}
            sizes = {"chr1": 2 * n + 10, "chr2": 50}
            o = bbgen.gen_options(r, tier)
            o.update({"ips": r.choice([65536, 70000, 100000]), "zooms": "none", "src": "iter", "sort": "all"})
            lines = [bbgen.opt_line(o)] + bbgen.bed_lines(["chr1", "chr2"], sizes, data)
            lines += [f"Q iv chr1 0 {sizes['chr1']}", "Q iv chr2 0 50", f"Q iv chr1 {2 * 65535 - 4} {2 * 65535 + 6}"]
            out.append(CaseT(f"ipsbig{k}", "bed", [], lines, {"items_per_slot_over_u16", "multi_chrom", "multi_section", "nt"}))
        # genome-scale coordinates: chromosomes of up to 2^32 - 1 bases, entries longer than 2^24 bases, overlapping long entries
        for k in range(40 if tier == "thorough" else 8):
            r = rng.fork(f"genome{k}")
            names, sizes, data, tags = bbgen.gen_genome_scale(r, bed=True)
            o = bbgen.gen_options(r, tier)
            o.update({"compress": 1 if k % 4 else 0, "ips": r.choice([64, 1024]), "zooms": r.choice(["none", "auto", "100000,400000"]), "src": r.choice(["iter", "file"]), "sort": "all",
                      "izs": r.choice([100000, 1000000])})      # automatic levels start coarse: a 10^8-base item at resolution 2 is 5·10^7 records
            lines = [bbgen.opt_line(o)] + bbgen.bed_lines(names, sizes, data) + [f"Q iv {n} 0 {sizes[n]}" for n in names]
            nm = names[-1]
            mid = data[nm][len(data[nm]) // 2]
            lines += [f"Q iv {nm} {mid[0]} {mid[1]}", f"Q iv {nm} {max(0, mid[0] - 1)} {mid[0] + 1}", f"Q iv {nm} {mid[1] - 1} {min(sizes[nm], mid[1] + 20000000)}"]
            out.append(CaseT(f"genome{k}", "bed", [], lines, self.common_tags(o, names, data, tags | {"nt"})))
        # a supplied schema longer than 64 KiB: returned verbatim like any other
        for k, nf in enumerate((800,) if tier != "thorough" else (800, 1500)):
            text = 'table wide\n"A table with many documented columns"\n(\n' + "".join(
                f'    {"string" if i % 3 else "uint"} column{i};\t"Documentation of column number {i}, as long as such comments are"\n' for i in range(nf)) + ")\n"
            lines = ["OPT compress=0 ips=1024 bs=256 zooms=none pass=" + str(1 + k % 2) + " src=iter sort=all", "CHROM chr1 1000", "CHROM chr2 500",
                     "E chr1 5 9 -", "E chr1 7 20 -", "E chr2 1 3 -", "AUTOSQL " + text.encode().hex(), "Q iv chr1 0 1000", "Q iv chr2 0 500"]
            out.append(CaseT(f"longschema{k}", "bed", [], lines, {"schema_over_64KiB", "multi_chrom", "nt", "bed"}))
        for k in range(8 if tier == "thorough" else 2):
            out.append(bbgen.short_dest_case(rng.fork(f"shortdest{k}"), f"shortdest{k}", True))
        return out

    def oracle(self, case, il):
        bad = bbgen.basic_ok(il)
        if bad:
            return bad
        order, sizes, data = bbgen.case_input_bed(case)
        want = "CHROMS " + " ".join(f"{n}:{i}:{sizes[n]}" for i, n in enumerate(order))
        got = bbgen.first_line(il, "CHROMS")
        if got != want:
            return f"chromosome table `{got}`, expected `{want}`"
        n = sum(len(v) for v in data.values())
        if bbgen.first_line(il, "ITEMCOUNT") != f"ITEMCOUNT {n}":
            return f"item count `{bbgen.first_line(il, 'ITEMCOUNT')}`, number of entries {n}"
        a = case.records("AUTOSQL")
        if a and bbgen.first_line(il, "AUTOSQL") != "AUTOSQL " + a[0][1]:
            return "the supplied autoSql text is not returned verbatim"
        return bbgen.oracle_bed_queries(case, il, exact_full_span=True)


    def known_match(self, finding, case, reason):
        if finding.get("id") == "D5-bed-entry-0-0":
            order, sizes, data = bbgen.case_input_bed(case)
            has00 = [n for n in order if any(s == 0 and e == 0 for (s, e, _) in data[n])]
            # the reader refuses the block that holds a (0,0) record: queries on that chromosome fail with InvalidFile
            return bool(has00) and ("failed: `A" in reason and "InvalidFile" in reason) and any(f"query {n}:" in reason for n in has00)
        return False

    def extra_checks(self, rep, tier, rng, workdir):
        byte_level_check(self, rep, workdir)


PROP = C02()
