"""C20 — Python-binding array routines compute the documented per-base and binned values."""
import json
import math
import os
import shutil
import struct
import subprocess
from vlib import Prop, CaseT, repo_bin, run_model, BUILD, REPO_TARGET, f32bits
import bbgen

PYMOD = os.path.join(BUILD, "pymod")
CHROM = "chr1"


def layouts(rng, length, bed, n):
    out = []
    for _ in range(n):
        items = []
        pos = rng.range(0, 3)
        for _i in range(rng.range(1, 5)):
            if bed:
                s = min(length - 1, pos)
                e = min(length, s + rng.choice([0, 1, 2, 3, 5, 8]))
                if s == 0 and e == 0:
                    e = 1                   # (0,0) is the reader's padding marker (D5, a known finding of C02) — not C20's subject
                items.append((s, e))
                pos = s + rng.choice([0, 0, 1, 2, 4])
            else:
                s = pos + rng.choice([0, 0, 1, 2])
                e = min(length, s + rng.choice([1, 1, 2, 3, 5]))
                if s >= length or e <= s:
                    break
                items.append((s, e, rng.choice([1, 2, 3, -2, 5])))
                pos = e
        if items:
            out.append(items)
    return out


class C20(Prop):
    pid = "C20"
    needs_repo_bins = ("bigtools", "pybigtools")
    rule = ("bigWig and bigBed files on one small chromosome (length 12 / 30, with zoom levels 2 and 4), seeded value / entry "
            "layouts (adjacent, gapped, overlapping, nested, zero-length); for each file EVERY request shape [s, e) with "
            "s ∈ −4..len, e ∈ s+1..len+4 and every bin count 1..(e−s) in exact mode for the three statistics, plus per-base "
            "requests and zoom-backed (exact=False) requests, with missing ∈ {0, −1, 7, NaN} and oob ∈ {NaN, −5}, all through "
            "the real Python API (pybigtools.values from the cdylib built from /repo), a share of them with the file opened from file-like objects (BytesIO; raw streams delivering 7 or 1000 bytes per read) and a share into a caller-supplied "
            "`arr=` buffer that already holds other numbers. Exact equality with the model and the "
            "oracle where the bin width is integral; NaN-freedom and range for every width. Non-trivial = a request with bins "
            "whose range is cut by data, or reaching outside the chromosome")
    removable = ()

    def cases(self, rng, tier):
        return []

    def extra_checks(self, rep, tier, rng, workdir):
        so = os.path.join(REPO_TARGET, "release", "libpybigtools.so")
        if not os.path.exists(so):
            rep.violation("pybigtools_build.txt", "the pybigtools cdylib could not be built from /repo's working tree\n", "no-failing-input-found")
            return
        os.makedirs(PYMOD, exist_ok=True)
        shutil.copy(so, os.path.join(PYMOD, "pybigtools.so"))
        d = os.path.join(workdir, "py")
        os.makedirs(d, exist_ok=True)
        nfiles = 24 if tier == "thorough" else 6
        jobs, meta = [], []
        for k in range(nfiles):
            r = rng.fork(k)
            bed = (k % 2 == 1)
            length = 30 if k % 3 == 2 else 12
            items = layouts(r, length, bed, 1)
            if not items:
                continue
            items = items[0]
            sz = os.path.join(d, f"s{k}.sizes")
            open(sz, "w").write(f"{CHROM}\t{length}\n")
            src = os.path.join(d, f"i{k}." + ("bed" if bed else "bedGraph"))
            with open(src, "w") as f:
                for it in items:
                    f.write(f"{CHROM}\t{it[0]}\t{it[1]}" + ("" if bed else f"\t{it[2]}") + "\n")
            outp = os.path.join(d, f"f{k}." + ("bb" if bed else "bw"))
            p = subprocess.run([repo_bin("bedtobigbed" if bed else "bedgraphtobigwig"), src, sz, outp, "--zooms", "2", "4"],
                               capture_output=True, text=True)
            if not os.path.exists(outp):
                rep.notes.append("could not prepare a file: " + p.stderr[-150:])
                continue
            reqs = []
            miss_opts = [0, -1, 7, "nan"]
            oob_opts = ["nan", -5]
            step = 1 if tier == "thorough" else 2
            for s in range(-4, length, step):
                for e in range(s + 1, length + 5, step):
                    m = miss_opts[(s + e) % 4]
                    o = oob_opts[(s * 3 + e) % 2]
                    if (s + 2 * e) % 5 == 0:
                        reqs.append(dict(chrom=CHROM, start=s, end=e, bins=None, missing=m, oob=o))
                    for nb in range(1, e - s + 1):
                        if tier != "thorough" and (e - s) % nb and (s + e + nb) % 3:
                            continue
                        sm = ["mean", "min", "max"][(s + e + nb) % 3]
                        reqs.append(dict(chrom=CHROM, start=s, end=e, bins=nb, summary=sm, exact=True, missing=m, oob=o))
                        if (s + e + nb) % 4 == 0:
                            reqs.append(dict(chrom=CHROM, start=s, end=e, bins=nb, summary=sm, exact=False, missing=m, oob=o))
                        if (s + 2 * e + nb) % 4 == 1:
                            # the same request into a caller-supplied buffer that already holds something
                            reqs.append(dict(chrom=CHROM, start=s, end=e, bins=nb, summary=sm, exact=((s + nb) % 3 != 0), missing=m, oob=o, arr=99))
                    if (s + 2 * e) % 5 == 1:
                        reqs.append(dict(chrom=CHROM, start=s, end=e, bins=None, missing=m, oob=o, arr=99))
            jobs.append({"file": outp, "requests": reqs})
            meta.append((k, bed, length, items))
            # the same file opened from file-like objects: an in-memory buffer, and raw streams whose read(n) delivers fewer
            # bytes than asked (7 / 1000 per call) — a share of the requests each
            for oi, how in enumerate(("short7", "bytesio", "short1000")):
                sub = reqs[oi::(40 if how == "short7" else 9) if tier != "thorough" else 6]
                jobs.append({"file": outp, "open": how, "requests": sub})
                meta.append((f"{k}{how}", bed, length, items))
        # files with 300 small chromosomes (default options: the index gets an upper level spanning chromosome boundaries);
        # requests on sub-ranges of chromosomes in the middle of the file
        import bbgen
        for bed in (False, True):
            names, sizes_m, data_m = bbgen.many_contigs(300, 3)
            tag = "mb" if bed else "mw"
            sz = os.path.join(d, f"{tag}.sizes")
            open(sz, "w").write("".join(f"{n}\t{sizes_m[n]}\n" for n in names))
            src = os.path.join(d, f"{tag}." + ("bed" if bed else "bedGraph"))
            with open(src, "w") as f:
                for n in names:
                    for (a, b, v) in data_m[n]:
                        f.write(f"{n}\t{a}\t{b}" + ("" if bed else f"\t{v}") + "\n")
            outp = os.path.join(d, f"{tag}." + ("bb" if bed else "bw"))
            subprocess.run([repo_bin("bedtobigbed" if bed else "bedgraphtobigwig"), src, sz, outp], capture_output=True, text=True)
            if not os.path.exists(outp):
                continue
            for ci in (0, 7, 130, 255, 256, 299):
                n = names[ci]
                items = [(a, b) for (a, b, v) in data_m[n]] if bed else [(a, b, v) for (a, b, v) in data_m[n]]
                lo = data_m[n][0][0]
                reqs = []
                for (s_, e_) in ((lo - 3, lo + 12), (lo, lo + 40), (data_m[n][1][0] - 2, data_m[n][2][1] + 3), (0, 30)):
                    s_ = max(s_, -4)
                    reqs.append(dict(chrom=n, start=s_, end=e_, bins=None, missing=0, oob="nan"))
                    for nb in (1, 3, e_ - s_):
                        reqs.append(dict(chrom=n, start=s_, end=e_, bins=nb, summary=["mean", "min", "max"][nb % 3], exact=True, missing=-1, oob=-5))
                jobs.append({"file": outp, "requests": reqs})
                meta.append((f"{tag}{ci}", bed, sizes_m[n], items))
        # genome-scale requests: spans of more than 2^24 and 2^25 bases (where single precision stops being exact for integers) cut
        # into bins of integral width, with entries that start in the last 1–4 bases before a bin border far from the request start
        gmeta = {}
        for bed in (False, True):
            r = rng.fork(f"genome{int(bed)}")
            glen = 2147483000                 # just below 2^31 (the Python API's coordinates are signed 32-bit numbers)
            greqs = [(0, 3 << 24, 512), (0, 3 << 24, 3072), (5, 5 + (1 << 25), 1024), (1000, 1000 + (5 << 24), 640)]
            ents = [(10, 20, 1.0)]
            for (s_, e_, nb) in greqs:
                w_ = (e_ - s_) // nb
                for j in sorted({r.range(nb // 3 + 1, nb - 1) for _ in range(6)} | {nb - 1}):
                    b_ = s_ + j * w_
                    dl = r.choice([1, 2, 3, 4])
                    ents.append((b_ - dl, b_ - dl + r.choice([1, 1, 2, 7]), float(r.choice([2, 3, 5, 7]))))
            # a record that starts near the chromosome start and ends just below 2^31 (bigBed: one long entry; bigWig: one long value)
            ents.append((500, 2147482990, 2.0)) if bed else None
            ents.sort()
            if not bed:
                flat = []
                for it in ents:                      # bigWig values do not overlap
                    if not flat or it[0] >= flat[-1][1]:
                        flat.append(it)
                ents = flat
            tag = "gb" if bed else "gw"
            sz = os.path.join(d, f"{tag}.sizes")
            open(sz, "w").write(f"{CHROM}\t{glen}\n")
            src = os.path.join(d, f"{tag}." + ("bed" if bed else "bedGraph"))
            with open(src, "w") as f:
                for (a, b, v) in ents:
                    f.write(f"{CHROM}\t{a}\t{b}" + ("" if bed else f"\t{v}") + "\n")
            outp = os.path.join(d, f"{tag}." + ("bb" if bed else "bw"))
            subprocess.run([repo_bin("bedtobigbed" if bed else "bedgraphtobigwig"), src, sz, outp], capture_output=True, text=True)
            if not os.path.exists(outp):
                rep.notes.append("could not prepare the genome-scale file")
                continue
            reqs = [dict(chrom=CHROM, start=s_, end=e_, bins=nb, summary=["mean", "min", "max"][(i + int(bed)) % 3], exact=True, missing=-1, oob=-5)
                    for i, (s_, e_, nb) in enumerate(greqs)]
            # per-base requests that start BELOW 0 over the start of that long record (shifted coordinates near ±2^31)
            reqs += [dict(chrom=CHROM, start=s_, end=e_, bins=None, missing=-1, oob=-5) for (s_, e_) in ((-8, 1000), (-1000, 1000), (-5, 600), (0, 700), (-3000, 501))]
            jobs.append({"file": outp, "requests": reqs})
            meta.append((tag, bed, glen, []))            # judged by genome_judge (interval arithmetic), not base by base
            gmeta[tag] = ents
        jf, rf = os.path.join(d, "jobs.json"), os.path.join(d, "results.json")
        json.dump(jobs, open(jf, "w"))
        p = subprocess.run(["python3-vt", os.path.join(os.path.dirname(os.path.abspath(__file__)), "..", "py_values_driver.py"), PYMOD, jf, rf],
                           capture_output=True, text=True, timeout=3000)
        if not os.path.exists(rf):
            rep.violation("python_driver.txt", "the Python API driver did not produce results:\n" + p.stderr[-1500:] + "\n", "no-failing-input-found")
            return
        results = json.load(open(rf))
        # model answers
        mcases = []
        for (k, bed, length, items), job in zip(meta, jobs):
            if k in gmeta:
                mcases.append(CaseT(f"py{k}", "pyvalues", ["bed" if bed else "wig"], [f"LEN 1"]))     # not for the per-base model
                continue
            lines = [f"LEN {length}"]
            for it in items:
                lines.append(f"E {it[0]} {it[1]}" if bed else f"V {it[0]} {it[1]} {f32bits(float(it[2]))}")
            for rq in job["requests"]:
                lines.append(f"REQ {rq['start']} {rq['end']} {rq['bins'] if rq['bins'] else '-'} {rq.get('summary', 'mean')} "
                             f"{rq['missing']} {rq['oob']} {1 if rq.get('exact', True) else 0}")
            mcases.append(CaseT(f"py{k}", "pyvalues", ["bed" if bed else "wig"], lines))
        mo = run_model(mcases, os.path.join(d, "model"))
        seen = set()
        nreq = nmodel = 0
        for (k, bed, length, items), job, res, mc in zip(meta, jobs, results, mcases):
            ml = {int(l.split(" ")[1]): l for l in mo.get(mc.id, []) if l.startswith("P ")}
            for qi, (rq, rr) in enumerate(zip(job["requests"], res)):
                nreq += 1
                rep.evals += 1
                shape = "perbase" if rq["bins"] is None else ("zoom" if not rq.get("exact", True) else
                                                              ("exact_integral" if (rq["end"] - rq["start"]) % rq["bins"] == 0 else "exact_fractional"))
                rep.tag(shape)
                rep.tag("bed" if bed else "wig")
                if rq["start"] < 0 or rq["end"] > length:
                    rep.tag("reaches_outside")
                if rq["bins"] is not None or rq["start"] < 0 or rq["end"] > length:
                    rep.nontrivial.add((k, qi))
                if k in gmeta:
                    rep.tag("span_over_2^24_bases")
                    bad = self.genome_judge(rq, rr, bed, gmeta[k])
                else:
                    bad = self.judge(rq, rr, bed, length, items, ml.get(qi))
                if ml.get(qi, "").startswith(f"P {qi} ok"):
                    nmodel += 1
                if bad:
                    key = (shape, bad.split(":")[0][:40])
                    if key not in seen and len(seen) < 6:
                        seen.add(key)
                        rep.violation(f"py_{k}_{qi}.txt",
                                      f"# pybigtools.open(<file>).values({rq})\n# file: {'bigBed' if bed else 'bigWig'} on {CHROM} (length {length}) with "
                                      f"{'entries' if bed else 'values'} {gmeta.get(k, items)}\n# {bad}\n# returned: {self.floats(rr)}\n# model: {ml.get(qi)}\n")
        rep.coverage["requests_through_python_api"] = nreq
        rep.coverage["requests_answered_by_model"] = nmodel
        if len(rep.samples) < 3 and jobs:
            rep.samples.append({"file": meta[0][3], "request": jobs[0]["requests"][5], "returned": self.floats(results[0][5])})

    @staticmethod
    def floats(rr):
        if "exc" in rr:
            return rr["exc"]
        return [struct.unpack(">d", bytes.fromhex(x))[0] for x in rr["v"]]

    def genome_judge(self, rq, rr, bed, ents):
        """exact bins of integral width over a genome-scale span, by interval arithmetic (mean over the covered bases; bigBed =
        coverage depth)"""
        if "exc" in rr:
            return "the call raised: " + rr["exc"]
        got = self.floats(rr)
        if rq["bins"] is None:
            s, e = rq["start"], rq["end"]
            glen = 2147483000
            if len(got) != e - s:
                return f"array has {len(got)} cells, expected {e - s}"
            near = [(a, b, v) for (a, b, v) in ents if b > s and a < e]
            for i, g in enumerate(got):
                p_ = s + i
                if p_ < 0 or p_ >= glen:
                    want = float(rq["oob"])
                else:
                    cov = [v for (a, b, v) in near if a <= p_ < b]
                    want = (float(len(cov)) if bed else cov[0]) if cov else float(rq["missing"])
                if g != want:
                    return f"per-base: cell {i} (base {p_}) is {g}, expected {want}"
            return None
        s, e, n = rq["start"], rq["end"], rq["bins"]
        w = (e - s) // n
        if len(got) != n:
            return f"array has {len(got)} cells, expected {n}"
        touched = {}
        for (a, b, v) in ents:
            for j in range(max(0, (a - s) // w), min(n - 1, (b - 1 - s) // w) + 1):
                touched.setdefault(j, []).append((a, b, v))
        for j, g in enumerate(got):
            lo, hi = s + j * w, s + (j + 1) * w
            segs = []
            if j in touched:
                pts = sorted({lo, hi} | {min(max(x, lo), hi) for (a, b, v) in touched[j] for x in (a, b)})
                for x, y in zip(pts, pts[1:]):
                    cov = [v for (a, b, v) in touched[j] if a <= x and y <= b]
                    if cov:
                        segs.append((y - x, float(len(cov)) if bed else cov[0]))
            if not segs:
                want = float(rq["missing"])
            elif rq["summary"] == "mean":
                want = sum(l * v for l, v in segs) / sum(l for l, v in segs)
            elif rq["summary"] == "min":
                want = min(v for l, v in segs)
            else:
                want = max(v for l, v in segs)
            if not (g == want or abs(g - want) <= 1e-9 * max(1.0, abs(want))):
                return f"exact bins of integral width {w}: bin {j} = [{lo},{hi}) reports {g}, expected {want}"
        return None

    def judge(self, rq, rr, bed, length, items, mline):
        """None = fine; else what fails (oracle first, then the correspondence with the model)"""
        if "exc" in rr:
            return "the call raised: " + rr["exc"]
        got = self.floats(rr)
        s, e = rq["start"], rq["end"]
        miss = float("nan") if rq["missing"] == "nan" else float(rq["missing"])
        oob = float("nan") if rq["oob"] == "nan" else float(rq["oob"])

        def same(a, b):
            return (math.isnan(a) and math.isnan(b)) or a == b or (not math.isnan(a) and not math.isnan(b) and abs(a - b) <= 1e-9 * max(1.0, abs(b)))

        def cell(p):
            if bed:
                dd = sum(1 for (a, b) in items if a <= p < b)
                return float(dd) if dd else None
            for (a, b, v) in items:
                if a <= p < b:
                    return float(v)
            return None
        data_vals = [cell(p) for p in range(0, length)]
        present = [v for v in data_vals if v is not None]
        n = (e - s) if rq["bins"] is None else rq["bins"]
        if len(got) != n:
            return f"array has {len(got)} cells, expected {n}"
        if rq["bins"] is None:
            for i, g in enumerate(got):
                p = s + i
                want = oob if (p < 0 or p >= length) else (cell(p) if cell(p) is not None else miss)
                if not same(g, want):
                    return f"per-base: cell {i} (base {p}) is {g}, expected {want}"
        else:
            w = (e - s) / n
            integral = (e - s) % n == 0
            exact = rq.get("exact", True)
            for j, g in enumerate(got):
                lo, hi = s + j * w, s + (j + 1) * w
                if integral and exact:
                    lo, hi = int(lo), int(hi)
                    if lo < 0 or hi > length:
                        want = oob
                    else:
                        xs = [cell(p) for p in range(lo, hi) if cell(p) is not None]
                        if not xs:
                            want = miss
                        elif rq["summary"] == "mean":
                            want = sum(xs) / len(xs)
                        elif rq["summary"] == "min":
                            want = min(xs)
                        else:
                            want = max(xs)
                    if not same(g, want):
                        return f"exact bins of integral width: bin {j} = [{lo},{hi}) reports {g}, expected {want}"
                else:
                    # every width: no NaN for finite data and finite fill values; inside the data range, or a fill value
                    fills_nan = math.isnan(miss) or (math.isnan(oob) and (s < 0 or e > length))
                    if math.isnan(g) and not fills_nan:
                        return f"bin {j} is NaN although data, missing and (applicable) oob are finite"
                    if not math.isnan(g) and present:
                        # bigBed: an uncovered base has coverage depth 0, which a zoom-backed or edge-straddling bin may report
                        low = 0.0 if bed else min(present)
                        ok = (low - 1e-9 <= g <= max(present) + 1e-9) or same(g, miss) or same(g, oob)
                        if not ok:
                            return f"bin {j} reports {g}, outside the data range [{min(present)}, {max(present)}] and not a fill value"
        # correspondence with the Lean model where it answers
        if mline and mline.split(" ")[2] == "ok":
            cells = mline.split(" ")[3:]
            if len(cells) != len(got):
                return f"correspondence: model has {len(cells)} cells, implementation {len(got)}"
            for i, (c, g) in enumerate(zip(cells, got)):
                if c == "m":
                    want = miss
                elif c == "o":
                    want = oob
                elif c == "nan":
                    want = float("nan")
                else:
                    a, b = c.split("/")
                    want = int(a) / int(b)
                if not same(g, want):
                    return f"correspondence: cell {i} is {g}, the model gives {c}"
        elif mline and mline.split(" ")[2] == "panic":
            return "correspondence: the model panics on this request"
        return None


PROP = C20()
