#!/bin/sh
# usage: tools/confirm_seeded.sh <scratch worktree with SEEDED/>   — re-confirms a seeded change in its scratch worktree:
#   suite with the change (demo moved out) must exit 0, the demonstration must fail with the change and pass without it
w="$1"; cd "$w" || exit 2
export CARGO_TARGET_DIR="$w/target" CARGO_NET_OFFLINE=true
demos=$(git status --porcelain | grep '^??' | awk '{print $2}' | grep -v '^SEEDED' | grep -v 'TASK.md' | grep -v -i 'foreign' | grep -v '^target')
mkdir -p "$w/.demo_hold"
git checkout -- . 2>/dev/null
for d in $demos; do mkdir -p "$w/.demo_hold/$(dirname $d)"; mv "$d" "$w/.demo_hold/$d"; done
git apply SEEDED/patch.diff || { echo "CONFIRM $w patch-does-not-apply"; exit 1; }
cargo test --workspace --no-fail-fast --offline -j 8 > "$w/.confirm_suite.log" 2>&1; s=$?
for d in $demos; do mv "$w/.demo_hold/$d" "$d"; done
sh SEEDED/run_demo.sh > "$w/.confirm_demo_with.log" 2>&1; a=$?
git apply -R SEEDED/patch.diff
sh SEEDED/run_demo.sh > "$w/.confirm_demo_without.log" 2>&1; b=$?
git apply SEEDED/patch.diff
echo "CONFIRM $w suite_with_change=$s demo_with_change=$a demo_without_change=$b demos=[$demos]"
