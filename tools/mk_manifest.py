#!/usr/bin/env python3
"""Writes /verif/MANIFEST.json from the table below (one entry per claimed property)."""
import json
import os

VERIF = os.path.dirname(os.path.dirname(os.path.abspath(__file__)))
TECH = ("Lean 4 theorems about a hand-written model + differential correspondence (same cases through the real code and the model "
        "driver); decision functions, range filters, preconditions and the arithmetic / branch conditions of the core loops are "
        "regenerated from the Rust source on every run and proved equal to the model's (obligations OverlapsGen, FiltersGen, "
        "ValidateGen, Atoms<Group>, ConvGen, WriteGen<File>)")
NOTE = ("Trusted: Lean 4.33 kernel; axioms propext / Classical.choice / Quot.sound only; the hand-written model "
        "(tied to /repo by this check's correspondence run, by constants re-extracted from the source and by the expressions "
        "regenerated from the source with tools/rs2lean.py — the translator is trusted for those); the harness, "
        "generators and oracles in /verif. ")

CLAIMED = {
    "C12": dict(
        text=("Proof: safety (no panic branch; await returns dest0 ++ all written bytes, once, in order) and progress "
              "(no deadlock; the wait ends exactly when the producer has dropped; every run has at most 2·writes+4 steps) "
              "for the staging-buffer protocol as a transition system at the granularity of each shared-memory access, for "
              "every producer history and EVERY interleaving (induction over schedules). The tie to the code is an "
              "exhaustive replay of all interleavings of small programs at public-call granularity against the real "
              "TempFileBuffer (both staging modes), compared with the model and with the property oracle."),
        ref="DESIGN.md §5 C12",
        note=NOTE + "Not modelled: real memory ordering of AtomicCell/Mutex/Condvar and the OS temp file; that each public call "
                    "contains exactly the atomic steps of the model is argued by reading the code and validated by the replay."),
    "C18": dict(
        text=("Proof: (b) FileView refines the clamped isolated slice for every window and EVERY sequence of read/seek "
              "operations (simulation, induction over the sequence); (c) the chunker terminates and its chunks are contiguous, "
              "cover [0,size) exactly once and cut only at line starts, for every file and chunk count, hence the chunks "
              "partition the lines in order; (a) the bisection of index_chroms returns exactly the first line of every "
              "chromosome run for every grouped file (soundness + completeness over the abstract list of line starts). "
              "Correspondence: exhaustive small files / windows / operation sequences through the real FileView, "
              "split_file_into_chunks_by_size and index_chroms, compared with the model and a linear-scan oracle."),
        ref="DESIGN.md §5 C18",
        note=NOTE + "The indexer theorem is about the abstract bisection (probe = first line start after a byte); its literal "
                    "transcription is tested equal on 599,844 small files. OS file I/O and BufReader are not modelled."),
    "C19": dict(
        text=("Proof: for every extra-column count 0..40 the generated schema parses to exactly 3+n fields (finite quantifier, "
              "kernel-decided against the model's copy of the generator tables); the parser returns on EVERY string, for every "
              "character classification (each loop consumes input — the fuel of the model is never exhausted). "
              "Correspondence: generator output and field count for 0..40 columns, grammar-based schemas with all truncations "
              "and single-token mutations, and all short strings over the delimiter alphabet, through the real parser "
              "(watchdog + memory cap) vs the model: declarations and error kinds must agree."),
        ref="DESIGN.md §5 C19",
        note=NOTE + "Rust's Unicode character classes are a parameter of the theorems; the driver instantiates them for ASCII + Latin-1. "
                    "Bounded output growth is implied by termination within |s|+1 iterations per loop; not stated separately."),
    "C15": dict(
        text=("Proof: for every window size W > 0 and any number of sorted disjoint streams the merged output carries at every "
              "base the sum of the inputs (nothing where it is zero) and is sorted, disjoint, non-empty, non-zero; gap filling is a "
              "gapless tiling that keeps every value and adds only zeros; the tool's clip/adjust/threshold stage per base; reading "
              "[0,len) hands the merger every stored value (and [1,len) provably loses base 0); the output-name detection accepts "
              "every documented spelling. Correspondence: merge_sections_many / fill / fill_start_to_end in-process vs the model on "
              "streams crossing the 50,000-base windows, and the built bigwigmerge binary over a clip/adjust/threshold grid, "
              "all documented output names, bedGraph vs bigWig output."),
        ref="DESIGN.md §5 C15",
        note=NOTE + "Exact integer arithmetic in the model; the code's f32 sums are exact on the integer-valued data the check drives it with. "
                    "clap argument parsing and float printing are not modelled (outputs are compared numerically)."),
    "C01": dict(
        text=("Proof: write-then-read for the byte-level model writer over ALL valid inputs (any chromosomes with distinct names, "
              "sorted disjoint non-empty values, every items_per_slot ≥ 1, every fan-out ≥ 2, arbitrary zoom/summary areas): every "
              "range query on the written bytes returns the input's values filtered and clipped, bit-identical; full-span read = "
              "the input; chromosome table = first-appearance ids with the supplied sizes; section codec round trip up to 65535 "
              "items. Correspondence: real writer (all option combinations incl. compression, passes, buffering, runtime, sources) "
              "then real reader vs the model and an independent oracle, arbitrary finite f32 bit patterns."),
        ref="DESIGN.md §5 C01",
        note=NOTE + "zlib is a parameter of the model (inflate∘deflate = id assumed); theorem for little-endian, uncompressed images; "
                    "zero-length values are outside the theorem's hypotheses — at position 0 / chromosome end they are a known finding (D5)."),
    "C02": dict(
        text=("Proof: write-then-read for the byte-level bigBed model writer over all valid inputs (start-sorted entries, overlapping / "
              "nested / identical allowed, NUL-free rest, any items_per_slot ≥ 1 and fan-out ≥ 2): every query returns exactly the "
              "entries passing the reader's inclusive filter, once, in stored order; record codec round trip. Correspondence: real "
              "writer + reader vs model and oracle on overlapping / nested / duplicate / long-then-short layouts, rest fields with "
              "UTF-8 columns, autoSql none / generated / custom (verbatim + field count), item count, chromosome table."),
        ref="DESIGN.md §5 C02",
        note=NOTE + "As C01; the (0,0) entry is the reader's padding marker (D5, excluded from the theorem's hypotheses)."),
    "C03": dict(
        text=("Proof: range query = filter-and-clip of the stored values through the index candidates (block spans cover their items), "
              "per-base array routine (values()) against its specification, cache transparency after ANY history of accesses and any "
              "clearing limit. Correspondence: sequences of interval and per-base queries on the boundary set against one reader "
              "instance (plain, caching, fresh, fresh caching) vs model and oracle."),
        ref="DESIGN.md §5 C03",
        note=NOTE + "reopen() is exercised by fresh readers over the same bytes, not modelled separately."),
    "C04": dict(
        text=("Proof: with the repaired span rule every block span covers its entries for every start-sorted entry list and every "
              "items_per_slot, hence a query through the index candidates returns every overlapping entry once, in stored order, and "
              "nothing outside the inclusive filter (byte level: bed_query_bytes / bed_model_roundtrip); kernel-decided witnesses "
              "that the rule as found misses entries (D2). Correspondence: long-then-short layouts with items_per_slot ∈ {1,2,3}, "
              "block_size ∈ {2,3}, boundary queries, all reader modes; oracle: strictly overlapping ⊆ answer ⊆ touching."),
        ref="DESIGN.md §5 C04",
        note=NOTE),
    "C06": dict(
        text=("Proof: bigWig per-chromosome fold and cross-chromosome merge = count, Σlen, min, max, Σlen·v, Σlen·v² of all stored values; "
              "bigBed: the sweep's segments carry exactly the coverage depth, and bases / sum / sum of squares / min / max accumulated "
              "from them equal #covered bases (each once), Σdepth, Σdepth², extrema of the depth — for every start-sorted entry list; "
              "witnesses for D3, D16, D17. Correspondence: get_summary / item_count of written files vs model and an independent "
              "per-base recomputation, exactly representable values, both pass modes."),
        ref="DESIGN.md §5 C06",
        note=NOTE + "Exact arithmetic; IEEE rounding is not modelled (the check drives the code with values whose statistics are exact)."),
    "C07": dict(
        text=("Proof: for every resolution > 0 and every sorted value stream the tiler's records are in order, disjoint, at most one "
              "resolution long, with exact covered bases, sum, sum of squares, min and max of the values inside their span, total "
              "coverage preserved, and the tiler terminates; byte-level zoom range query returns every stored record meeting the "
              "range; witnesses for D1 and D14. Correspondence: every stored level of written files (manual incl. unsorted / "
              "duplicate / zero / >10 sizes, automatic, both passes, small items_per_slot) vs model and independent per-base oracle; "
              "levels strictly increasing."),
        ref="DESIGN.md §5 C07",
        note=NOTE + "Which levels are stored is taken from the file (auto selection depends on compressed sizes); each stored level is judged."),
    "C08": dict(
        text=("Proof: the bigBed zoom path = flagged tiler over the sweep's depth segments; records are a faithful reduction of the "
              "coverage depth (order, disjointness, length, covered bases, sum, min, max, every covered base in exactly one record) for "
              "every start-sorted entry list and every flush pattern. Correspondence: as C07 over overlapping / nested / identical / "
              "zero-length layouts; independent oracle from the per-base depth."),
        ref="DESIGN.md §5 C08",
        note=NOTE + "Sum of squares of the bed path is checked by correspondence + oracle; its theorem is the bigWig one (run3_sumsq) applied to squared depths."),
    "C05": dict(
        text=("Proof: for every fan-out b ≥ 2 and every non-empty start-sorted section list the builder terminates and searching the "
              "tree it builds = linear scan with the code's inclusive overlap test, in order; child pointers of the level-order "
              "layout are exactly the positions of the nodes below (every sibling but the last is full — proved); the reader's "
              "byte-level explicit-stack search over the bytes the writer lays down = linear scan (all 2 ≤ b < 65536, any placement); "
              "for ANY laid-out tree whose spans contain their leaves search = scan. Correspondence: exhaustive (n, b) shapes through "
              "the public API (1–6 level trees, partial last nodes, 1–3 chromosomes, zoom trees, bigBed-shaped non-monotone ends), "
              "boundary queries vs model and oracle; the byte-level reader MODEL on the implementation's own bytes vs the real "
              "reader; the Lean certificate on every file."),
        ref="DESIGN.md §5 C05",
        note=NOTE + "Theorems for little-endian images (big-endian twin of the read lemma exists, BBI.uN_be)."),
    "C13": dict(
        text=("Proof: the decision logic of process_val (both writers) and of the serial source: any defective item at any position of "
              "any run, or an unknown chromosome, makes the result an error; empty input and chromosome-order violations are refused; "
              "valid streams are accepted; termination pieces: the zoom tiler (any resolution > 0), the index builder on non-empty "
              "levels (and divergence on an empty level as found — D4), the autoSql parser. Correspondence: every violation class × "
              "position × file type × source × pass mode, and valid degenerate inputs, under catch_unwind and a watchdog: error class "
              "vs model (class-insensitive for the parallel source), refused inputs leave nothing a reader opens."),
        ref="DESIGN.md §5 C13",
        note=NOTE + "Termination of the whole write call is composed from the per-loop theorems by reading; tokio task scheduling is not modelled, "
                    "hangs are searched by the watchdog runs."),
    "C14": dict(
        text=("Proof: whatever is written at whatever positions, while no write has put a non-zero byte into offsets 0..3 the image's "
              "magic is zero, i.e. the readers reject it (hypothesis evaluated on the recorded operation log of every run); a buffered "
              "writer ending in an explicit flush reports a failing destination (and the drop-flush of the code as found hides it — D9 "
              "witness). Correspondence: recorded destination operations of real writes; EVERY prefix replayed and opened with the real "
              "readers (rejected / complete / partial); the write repeated with the k-th destination operation failing for every k."),
        ref="DESIGN.md §5 C14",
        note=NOTE + "BufWriter is modelled from its documented behaviour; that the header write comes after all data, index and zoom writes is "
                    "observed on every recorded log (model prediction r…r c…c), not proved from a writer model. Summary and data count are not "
                    "among 'record, index, zoom level'. A panic on an injected failure is not counted as success."),
    "C11": dict(
        text=("Proof: the hand-off pipeline as a product of staging-buffer protocols (one producer per chromosome, one consumer "
              "switching the file to chromosome 0, awaiting it, taking it back, switching to chromosome 1, …): for ANY number of "
              "chromosomes, any producer histories, both staging modes and EVERY interleaving of all atomic steps, a run that gets "
              "through all chromosomes leaves initial bytes ++ chromosome 0's bytes ++ … — the bytes of the sequential schedule (applies "
              "per destination: data file and each zoom file); chunked converter output = serial output (chunks partition the lines). "
              "Correspondence: real writes under a lattice of run-time configurations (threads 1..16, runtime flavour, channel size, "
              "buffering, sources) × seeded delay schedules at the pipeline's hand-off points (cfg-gated hooks): byte images must equal "
              "the single-thread reference; converters -t N vs -t 1."),
        ref="DESIGN.md §5 C11",
        note=NOTE + "PARTIAL by nature: tokio's scheduler, real memory ordering and the OS temp file are not modelled; a behaviour outside the "
                    "transition system (e.g. a torn access) can only be exposed by the delayed runs. Progress of the product (no deadlock) is "
                    "not a theorem; hangs are searched by the watchdog."),
    "C09": dict(
        text=("Proof: the Lean-defined certificate is sound — an index accepted by `walk` is laid out in the image with every recorded span "
              "containing the leaves beneath it, hence the READER's byte-level search = linear scan over its leaves; index accepted + "
              "every leaf block accepted ⇒ every query of the reader model returns exactly the independently decoded content (bigWig and "
              "bigBed); the model writers' output is always valid. Per run (translation validation): every file the real writers "
              "produce is decoded and judged by an independent Python decoder (format consistency, span containment in every R-tree, "
              "zlib blocks within the advertised buffer and ≤ itemsPerSlot items of one chromosome, data count, summary and zoom "
              "records recomputed) and must decode to exactly the input; uncompressed files are also judged by the Lean certificate."),
        ref="DESIGN.md §5 C09",
        note=NOTE + "Two judges: tools/bbi_codec.py (struct + zlib, shares no code with bigtools) and the Lean wfFile; sorted chromosome keys are "
                    "required only when the input's chromosomes were sorted (the repo documents the other case as unsupported by third-party readers)."),
    "C10": dict(
        text=("Proof: the reader's byte-level explicit-stack R-tree search equals the abstract depth-first search for ANY node placement, "
              "fan-out, depth and either byte order; bedGraph / varStep / fixedStep sections decode to the values they denote, filtered and "
              "clipped; an accepted index is searched like a linear scan; an accepted file is read exactly as decoded; big-endian read lemma; "
              "D12 witnesses. Correspondence: files from an independent encoder over {LE, BE} × {zlib, raw} × section types 1/2/3 × "
              "chromosome-tree block sizes × R-tree fan-outs × node placements × versions 1..4 (each accepted by the independent judge "
              "first): real readers (plain, caching) vs the decoded content for chromosome table, summary, interval / per-base / zoom "
              "queries, and vs the Lean reader model on the same bytes."),
        ref="DESIGN.md §5 C10",
        note=NOTE + "The decode theorems are stated little-endian (the big-endian twins follow from BBI.uN_be by the same proofs and are exercised "
                    "by the reader model on big-endian files). Non-UTF-8 rest fields (the reader unwraps from_utf8) are outside the quantifier."),
    "C17": dict(
        text=("Proof: size, covered bases and sum accumulated by stats_for_bed_item from the clipped values equal the coverage and "
              "weighted sum of the stored values inside the region; min / max equal the extrema of the overlapping values, NaN exactly "
              "when nothing is covered (incl. empty regions); chunks partition the input rows in order for every chunk count, so "
              "chunked output = serial output; per-base values array. Correspondence: stats_for_bed_item in-process vs model and oracle "
              "(means recomputed as the same IEEE quotient); bigwigaverageoverbed -t 1..16 × name modes × --min-max and "
              "bigwigvaluesoverbed at the command line vs -t 1 and the oracle."),
        ref="DESIGN.md §5 C17",
        note=NOTE + "Means are f64 quotients of proved quantities (division is outside the integer model); the {:.3} text is compared numerically."),
    "C16": dict(
        text=("Proof (decision logic in front of the converters): every UCSC spelling of the property rewrites to the native flag and "
              "native / positional arguments are left alone (kernel-decided against the table re-extracted from cli.rs), native `--…` "
              "arguments are never touched whatever follows (general lemma over the extracted tables), multicall dispatch; the record "
              "round trip and the restricted-range output are C01/C02/C03 for every option record. PARTIAL: clap, ryu float printing and "
              "Rust's float parser are not modelled. Correspondence: compat_args in-process on seeded argument vectors vs the model; the "
              "built binaries over -t 1..16, --parallel auto|yes|no, --single-pass, --inmemory, --uncompressed / -unc, --block-size / "
              "-blockSize=, --zooms, multicall, and restricted output (native and UCSC spellings) vs the real reader's range query."),
        ref="DESIGN.md §5 C16",
        note=NOTE + "Texts are compared as parsed records (numerically equal values, identical extra columns)."),
    "C20": dict(
        text=("Proof: per-base routines fill each cell with the stored value / the number of overlapping entries and leave it missing "
              "exactly when nothing covers it, never indexing out of bounds, for every range and every item list the reader can return; "
              "exact-bin routines of integral width (bigWig and bigBed): no out-of-bounds write and bin k = mean / min / max over the "
              "covered bases of its span, missing when none; witnesses of the code as found (panic, dropped entries, 0/0). "
              "Correspondence through the REAL Python API (pybigtools.values from the cdylib built from /repo): every request shape "
              "[s,e) incl. s < 0 and e > len × every bin count × three statistics × missing/oob fills on small files: exact equality "
              "with model and oracle for integral widths and per-base, NaN-freedom and range for every width and for zoom-backed requests."),
        ref="DESIGN.md §5 C20",
        note=NOTE + "PARTIAL: non-integral widths and zoom-backed bins are judged by NaN-freedom / range only (as the property asks); the "
                    "out-of-bounds fill is modelled in the driver, not proved; f64 arithmetic is exact on the integral cases compared exactly."),
}

PENDING = ["C01", "C02", "C03", "C04", "C05", "C06", "C07", "C08", "C09", "C10", "C11", "C13", "C14", "C15", "C16",
           "C17", "C18", "C19", "C20"]


def hook_commits():
    import subprocess
    out = subprocess.run(["git", "-C", "/repo", "log", "--format=%H %s"], capture_output=True, text=True).stdout
    return [l.split()[0] for l in out.splitlines() if " verif hook:" in l][::-1]


def main():
    checks = []
    for pid in sorted(CLAIMED):
        c = CLAIMED[pid]
        checks.append({
            "property_id": pid,
            "quick_cmd": f"./check {pid} quick",
            "thorough_cmd": f"./check {pid} thorough",
            "evidence_file": f"evidence/{pid}.json",
            "replay_cmd_template": f"./check {pid} --replay {{path}}",
            "engine": "lean-model+correspondence",
            "level_claimed": {"category": "proof", "text": c["text"], "design_ref": c["ref"]},
            "level_note": c["note"],
            "technique": TECH,
        })
    m = {
        "version": 1,
        "setup_cmd": "./check --setup",
        "hooks": {
            "guard": "bigtools_verif",
            "enable": "RUSTFLAGS=\"--cfg bigtools_verif\" (set by /verif/check for every cargo build of /repo and of the harness)",
            "baseline_off_cmd": "cd /repo && cargo test --workspace --no-fail-fast --offline",
            "source_commits": hook_commits(),
            "add_only": True,
        },
        "engines": [{
            "name": "lean-model+correspondence",
            "path": "/verif/check",
            "serves_properties": sorted(CLAIMED),
            "kind_free_text": "Lean 4 model and theorems (/verif/lean), Rust harness calling the real code in-process (/verif/harness), "
                              "Python orchestration, generators and property oracles (/verif/tools)",
        }],
        "checks": checks,
        "not_applicable": [{"property_id": p, "reason": "not claimed yet: the check for this property is still being built "
                                                         "(theorems exist in /verif/lean; see DESIGN.md §9a)"}
                           for p in PENDING if p not in CLAIMED],
        "notes": "See DESIGN.md. Every check: ./check <ID> quick|thorough; evidence in evidence/<ID>.json; known findings in known_findings.json.",
    }
    with open(os.path.join(VERIF, "MANIFEST.json"), "w") as f:
        json.dump(m, f, indent=1)
        f.write("\n")


if __name__ == "__main__":
    main()
