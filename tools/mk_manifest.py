#!/usr/bin/env python3
"""Writes /verif/MANIFEST.json from the table below (one entry per claimed property)."""
import json
import os

VERIF = os.path.dirname(os.path.dirname(os.path.abspath(__file__)))
TECH = "Lean 4 theorems about a hand-written model + differential correspondence (same cases through the real code and the model driver)"
NOTE = ("Trusted: Lean 4.33 kernel; axioms propext / Classical.choice / Quot.sound only; the hand-written model "
        "(tied to /repo by this check's correspondence run and by constants re-extracted from the source); the harness, "
        "generators and oracles in /verif. ")

CLAIMED = {
    "C12": dict(
        text=("Proof: safety (no panic branch; await returns dest0 ++ all written bytes, once, in order) and progress "
              "(no deadlock; the wait ends exactly when the producer has dropped; every run has at most 2·writes+4 steps) "
              "for the staging-buffer protocol as a transition system at the granularity of each shared-memory access, for "
              "every producer history and EVERY interleaving (induction over schedules). The tie to the code is an "
              "exhaustive replay of all interleavings of small programs at public-call granularity against the real "
              "TempFileBuffer (both staging modes), compared with the model and with the property oracle."),
        ref="DESIGN.md §5 C12",
        note=NOTE + "Not modelled: real memory ordering of AtomicCell/Mutex/Condvar and the OS temp file; that each public call "
                    "contains exactly the atomic steps of the model is argued by reading the code and validated by the replay."),
}

PENDING = ["C01", "C02", "C03", "C04", "C05", "C06", "C07", "C08", "C09", "C10", "C11", "C13", "C14", "C15", "C16",
           "C17", "C18", "C19", "C20"]


def main():
    checks = []
    for pid in sorted(CLAIMED):
        c = CLAIMED[pid]
        checks.append({
            "property_id": pid,
            "quick_cmd": f"./check {pid} quick",
            "thorough_cmd": f"./check {pid} thorough",
            "evidence_file": f"evidence/{pid}.json",
            "replay_cmd_template": f"./check {pid} --replay {{path}}",
            "engine": "lean-model+correspondence",
            "level_claimed": {"category": "proof", "text": c["text"], "design_ref": c["ref"]},
            "level_note": c["note"],
            "technique": TECH,
        })
    m = {
        "version": 1,
        "setup_cmd": "./check --setup",
        "hooks": {
            "guard": "bigtools_verif",
            "enable": "RUSTFLAGS=\"--cfg bigtools_verif\" (set by /verif/check for every cargo build of /repo and of the harness)",
            "baseline_off_cmd": "cd /repo && cargo test --workspace --no-fail-fast --offline",
            "source_commits": [],
            "add_only": True,
        },
        "engines": [{
            "name": "lean-model+correspondence",
            "path": "/verif/check",
            "serves_properties": sorted(CLAIMED),
            "kind_free_text": "Lean 4 model and theorems (/verif/lean), Rust harness calling the real code in-process (/verif/harness), "
                              "Python orchestration, generators and property oracles (/verif/tools)",
        }],
        "checks": checks,
        "not_applicable": [{"property_id": p, "reason": "not claimed yet: the check for this property is still being built "
                                                         "(theorems exist in /verif/lean; see DESIGN.md §9a)"}
                           for p in PENDING if p not in CLAIMED],
        "notes": "See DESIGN.md. Every check: ./check <ID> quick|thorough; evidence in evidence/<ID>.json; known findings in known_findings.json.",
    }
    with open(os.path.join(VERIF, "MANIFEST.json"), "w") as f:
        json.dump(m, f, indent=1)
        f.write("\n")


if __name__ == "__main__":
    main()
