#!/bin/sh
# usage: tools/run_seeded.sh <patch.diff> <ID> [<ID>…]   — applies a seeded change to /repo, runs the quick checks, undoes it
set -u
patch="$1"; shift
cd /repo || exit 2
if [ -n "$(git status --porcelain)" ]; then echo "/repo is not clean"; exit 2; fi
git apply "$patch" || { echo "patch does not apply"; exit 2; }
cd /verif
for id in "$@"; do
  s=$(date +%s)
  out=$(./check "$id" quick 2>&1 | grep -v WARNING)
  nv=$(echo "$out" | grep -c '^VIOLATION')
  echo "== $id: $nv violation line(s), $(( $(date +%s) - s )) s"
  if [ "$nv" = 0 ] && echo "$out" | grep -q 'Traceback'; then echo "   THE CHECK ITSELF CRASHED:"; echo "$out" | tail -4; fi
  python3 -c "import json; c=json.load(open('/verif/evidence/$id.json'))['coverage']; print('   failing cases: oracle', c.get('impl_oracle_failures'), 'model', c.get('model_disagreements'), 'of', c.get('evaluations'))"
  echo "$out" | grep '^VIOLATION\|^KNOWN' | cut -c1-200 | head -4
  for f in $(echo "$out" | grep '^VIOLATION' | sed 's/.*replay=\([^ ]*\).*/\1/' | head -2); do grep -h '^# property oracle\|^# corresp\|^# ' "$f" | head -2 | cut -c1-260; done
done
cd /repo && git checkout -- . && git status --porcelain | head -3
