#!/usr/bin/env python3
"""Mini-translator Rust → Lean for small PURE functions of /repo (integer comparisons and arithmetic, if/else chains,
early `return` in an `if`, `let`, calls among the translated functions, `.min()`/`.max()`).

Used by extract_consts.py: the decision logic of `overlaps` / `compare_position` (bbiread.rs) is REGENERATED from the
source on every run into lean/BigtoolsModel/Generated/Funcs.lean, and `BigtoolsModel/OverlapsGen.lean` proves that the
regenerated function equals the model's `RT.ov` for all arguments. Anything outside the subset raises Unsupported:
the caller then keeps the previous snapshot and records an extraction failure (never a verdict by itself)."""
import re


class Unsupported(Exception):
    pass


TOK = re.compile(r"\s*(?:(//[^\n]*)|(\d[\d_]*(?:[iu](?:8|16|32|64|size))?)|([A-Za-z_][A-Za-z_0-9]*)|(&&|\|\||==|!=|<<|<=|>=|->|::|\+=|-=|[-+*/%!<>(){},;:.=&]))")

UNSIGNED = {"u8", "u16", "u32", "u64", "usize"}
# the named constants of f64 / f32, as constructors of `Gen.FConst` (floats are not modelled; which constant a running minimum or
# maximum starts from is)
FLOAT_CONSTS = {"MAX": "FConst.posMax", "MIN": "FConst.negMax", "MIN_POSITIVE": "FConst.minPositive", "NAN": "FConst.nan",
                "INFINITY": "FConst.posInf", "NEG_INFINITY": "FConst.negInf", "EPSILON": "FConst.epsilon"}
SIGNED = {"i8", "i16", "i32", "i64", "isize"}


def tokenize(src):
    out, i = [], 0
    src = src.rstrip()
    while i < len(src):
        m = TOK.match(src, i)
        if not m:
            raise Unsupported("cannot tokenize at: " + src[i:i + 30])
        i = m.end()
        if m.group(1):
            continue
        if m.group(2):
            out.append(("int", re.sub(r"[iu](?:8|16|32|64|size)$", "", m.group(2)).replace("_", "")))
        elif m.group(3):
            out.append(("id", m.group(3)))
        else:
            out.append(("op", m.group(4)))
    return out


def find_fn(src, name):
    """text of `fn name(...) -> T { ... }` (brace matched)"""
    m = re.search(r"\bfn\s+" + re.escape(name) + r"\s*[<(]", src)
    if not m:
        raise Unsupported(f"fn {name} not found")
    i = src.index("{", m.end())
    depth, j = 0, i
    while True:
        if src[j] == "{":
            depth += 1
        elif src[j] == "}":
            depth -= 1
            if depth == 0:
                break
        j += 1
    return src[m.start():j + 1]


class P:
    def __init__(self, toks, known):
        self.t, self.i, self.known = toks, 0, known

    def peek(self, k=0):
        return self.t[self.i + k] if self.i + k < len(self.t) else ("eof", "")

    def eat(self, kind=None, val=None):
        tok = self.peek()
        if (kind and tok[0] != kind) or (val is not None and tok[1] != val):
            raise Unsupported(f"expected {kind} {val}, got {tok}")
        self.i += 1
        return tok

    def at(self, val):
        return self.peek()[1] == val and self.peek()[0] in ("op", "id")

    # fn name ( a : T , ... ) -> T { block }
    def fn(self):
        self.eat("id", "fn")
        name = self.eat("id")[1]
        self.eat("op", "(")
        params = []
        while not self.at(")"):
            if self.at("mut"):
                raise Unsupported("mut parameter")
            pn = self.eat("id")[1]
            self.eat("op", ":")
            ty = self.eat("id")[1]
            params.append((pn, ty))
            if self.at(","):
                self.eat()
        self.eat("op", ")")
        self.eat("op", "->")
        ret = self.eat("id")[1]
        body = self.block()
        if self.peek()[0] != "eof":
            raise Unsupported("trailing tokens")
        return name, params, ret, body

    def block(self):
        self.eat("op", "{")
        e = self.stmts()
        self.eat("op", "}")
        return e

    def stmts(self):
        if self.at("let"):
            self.eat()
            if self.at("mut"):
                raise Unsupported("let mut")
            x = self.eat("id")[1]
            if self.at(":"):
                self.eat()
                self.eat("id")
            self.eat("op", "=")
            e = self.expr()
            self.eat("op", ";")
            return ("let", x, e, self.stmts())
        if self.at("return"):
            self.eat()
            e = self.expr()
            if self.at(";"):
                self.eat()
            return e
        if self.at("if"):
            # either a statement `if c { return e; }` followed by more, or the tail expression
            save = self.i
            self.eat()
            c = self.expr(nostruct=True)
            then = self.block()
            if self.at("else"):
                self.i = save
                return self.tail()
            rest = self.stmts()
            return ("if", c, then, rest)
        return self.tail()

    def tail(self):
        e = self.expr()
        if not self.at("}"):
            raise Unsupported("statement form not supported: " + str(self.peek()))
        return e

    PREC = [("||",), ("&&",), ("==", "!=", "<", "<=", ">", ">="), ("<<",), ("+", "-"), ("*", "/", "%")]

    def expr(self, level=0, nostruct=False):
        if level == len(self.PREC):
            return self.unary()
        lhs = self.expr(level + 1)
        while self.peek()[0] == "op" and self.peek()[1] in self.PREC[level]:
            op = self.eat()[1]
            rhs = self.expr(level + 1)
            lhs = ("bin", op, lhs, rhs)
            if level == 2:
                break                       # comparisons do not chain
        return lhs

    def unary(self):
        if self.at("-"):
            self.eat()
            return ("neg", self.unary())
        if self.at("!"):
            self.eat()
            return ("not", self.unary())
        return self.postfix(self.atom())

    def postfix(self, e):
        while True:
            if self.at("."):
                self.eat()
                m = self.eat("id")[1]
                if not self.at("("):
                    if e[0] != "var":
                        raise Unsupported("field access on an expression")
                    e = ("var", e[1] + "_" + m)          # field access: value.start -> value_start
                    continue
                if m in ("len", "is_none", "is_some", "is_empty") and e[0] == "var" and self.peek(1) == ("op", ")"):
                    self.eat("op", "(")
                    self.eat("op", ")")
                    e = ("var", e[1] + "_" + m)          # observation of a container: items.len() -> items_len
                    continue
                SAT = {"saturating_mul": "*", "saturating_add": "+", "saturating_sub": "-"}
                if m not in ("min", "max") and m not in SAT:
                    raise Unsupported("method " + m)
                self.eat("op", "(")
                a = self.expr()
                self.eat("op", ")")
                # saturating arithmetic: exact on Nat below the type's maximum (subtraction saturates at 0 like Nat's); the
                # clamp at the maximum is not modelled (lengths and sizes are far below 2^64)
                e = ("bin", SAT[m], e, a) if m in SAT else ("call", m, [e, a])
            elif self.at("as"):
                self.eat()
                ty = self.eat("id")[1]
                e = ("as", ty, e)
            else:
                return e

    def atom(self):
        k, v = self.peek()
        if k == "int":
            self.eat()
            return ("int", v)
        if k == "op" and v == "(":
            self.eat()
            e = self.expr()
            self.eat("op", ")")
            return e
        if k == "id" and v == "if":
            self.eat()
            c = self.expr()
            a = self.block()
            self.eat("id", "else")
            b = self.block() if self.at("{") else self.atom()
            return ("if", c, a, b)
        if k == "id" and v in ("true", "false"):
            self.eat()
            return ("bool", v)
        if k == "id" and self.peek(1) == ("op", "::"):
            path = [self.eat("id")[1]]
            while self.at("::"):
                self.eat()
                path.append(self.eat("id")[1])
            last = path[-1]
            if last in ("min", "max") and self.at("("):
                self.eat()
                a = self.expr()
                self.eat("op", ",")
                b = self.expr()
                self.eat("op", ")")
                return ("call", last, [a, b])
            if path[0] in ("f64", "f32") and last in FLOAT_CONSTS and not self.at("("):
                return ("fconst", FLOAT_CONSTS[last])
            if last == "try_from" and path[0] in UNSIGNED and self.at("("):
                # `uN::try_from(e).unwrap_or(d)`: e when it fits the type, d otherwise
                self.eat()
                a = self.expr()
                self.eat("op", ")")
                if not (self.at(".") and self.peek(1) == ("id", "unwrap_or")):
                    raise Unsupported("try_from without unwrap_or")
                self.eat()
                self.eat("id")
                self.eat("op", "(")
                d = self.expr()
                self.eat("op", ")")
                top = ("int", str(2 ** (64 if path[0] == "usize" else int(path[0][1:])) - 1))
                return ("if", ("bin", "<=", a, top), a, d)
            if last == "from" and (path[0] in UNSIGNED or path[0] in ("f64", "f32")) and self.at("("):
                self.eat()
                a = self.expr()
                self.eat("op", ")")
                return a                                   # widening conversion between unsigned types
            if path[0] in UNSIGNED and last == "BITS" and not self.at("("):
                return ("int", path[0][1:] if path[0] != "usize" else "64")
            if path[0] in UNSIGNED and last in ("max_value", "MAX"):
                if self.at("("):
                    self.eat()
                    self.eat("op", ")")
                return ("int", str(2 ** int(path[0][1:]) - 1)) if path[0] != "usize" else ("int", str(2 ** 64 - 1))
            raise Unsupported("path " + "::".join(path))
        if k == "id":
            self.eat()
            if self.at("("):
                if v not in self.known:
                    raise Unsupported("call to untranslated function " + v)
                self.eat()
                args = []
                while not self.at(")"):
                    args.append(self.expr())
                    if self.at(","):
                        self.eat()
                self.eat("op", ")")
                return ("call", v, args)
            return ("var", v)
        raise Unsupported(f"unexpected token {k} {v}")


RESERVED = {"end", "from", "at", "then", "do", "fun", "let", "in", "open", "where", "with", "have", "show", "by", "min", "max"}
CMP = {"==": "=", "!=": "≠", "<": "<", "<=": "≤", ">": ">", ">=": "≥"}


def lean(e):
    k = e[0]
    if k == "int":
        return e[1]
    if k == "bool":
        return e[1]
    if k == "fconst":
        return e[1]
    if k == "var":
        return e[1] + "_" if e[1] in RESERVED else e[1]
    if k == "neg":
        return f"(-{lean(e[1])})"
    if k == "not":
        return f"(!{lean(e[1])})"
    if k == "as":
        if e[1] in ("f32", "f64"):
            # integer → float conversion rounds to 24 / 53 significant bits: kept visible (BigtoolsModel/FloatRound.lean)
            return f"(FR.{e[1]} ({lean(e[2])}))"
        if e[1] in ("u8", "u16", "u32"):
            # a cast to a narrower unsigned type keeps the low bits (FR.u32 x = x % 2^32): identity only below the type's range
            return f"(FR.{e[1]} ({lean(e[2])}))"
        return lean(e[2]) if e[1] in UNSIGNED else f"(↑{lean(e[2])})"
    if k == "call":
        return "(" + " ".join([e[1]] + [lean(a) if a[0] in ("int", "var") else "(" + lean(a) + ")" for a in e[2]]) + ")"
    if k == "bin":
        op = e[1]
        if op in CMP:
            return f"decide ({lean(e[2])} {CMP[op]} {lean(e[3])})"
        if op == "<<":
            return f"({lean(e[2])} <<< {lean(e[3])})"
        return f"({lean(e[2])} {op} {lean(e[3])})"
    if k == "if":
        return f"(if {lean(e[1])} then {lean(e[2])} else {lean(e[3])})"
    if k == "let":
        return f"(let {e[1]} := {lean(e[2])}; {lean(e[3])})"
    raise Unsupported(str(k))


def lty(t):
    if t in UNSIGNED:
        return "Nat"
    if t in SIGNED:
        return "Int"
    if t == "bool":
        return "Bool"
    raise Unsupported("type " + t)


def translate(src, roots):
    """translates the root functions and, first, every function of the same file they call -> Lean text"""
    out, known, busy = [], set(), set()

    def need(nm):
        if nm in known:
            return
        if nm in busy:
            raise Unsupported("recursive function " + nm)
        busy.add(nm)
        toks = tokenize(find_fn(src, nm))
        # callees: identifiers directly followed by `(` (other than the function itself, `if`, methods)
        for i, (k, v) in enumerate(toks[2:], 2):
            if k == "id" and i + 1 < len(toks) and toks[i + 1] == ("op", "(") and toks[i - 1] != ("op", ".") \
                    and v not in ("if", "fn", nm) and toks[i - 1] != ("id", "fn"):
                need(v)
        name, params, ret, body = P(toks, known).fn()
        ps = " ".join(f"({p} : {lty(t)})" for p, t in params)
        out.append(f"def {name} {ps} : {lty(ret)} :=\n  {lean(body)}")
        known.add(nm)

    for r in roots:
        need(r)
    return "\n\n".join(out)


def free_vars(e, acc=None):
    acc = set() if acc is None else acc
    if e[0] == "var":
        acc.add(e[1])
    else:
        for x in e[1:]:
            if isinstance(x, tuple):
                free_vars(x, acc)
            elif isinstance(x, list):
                for y in x:
                    free_vars(y, acc)
    return acc


def parse_expr(text):
    p = P(tokenize(text), set())
    e = p.expr()
    if p.peek()[0] != "eof":
        raise Unsupported("trailing tokens in expression: " + text)
    return e


def range_filters(src, fn_name, assigned=()):
    """the `if <cond> {` conditions of fn `fn_name` that mention both query bounds `start` and `end`, each with the
    expressions assigned to the l-values in `assigned` (e.g. "value.start") right after it.
    -> [(cond_ast, {lvalue: expr_ast})]"""
    body = find_fn(src, fn_name)
    out = []
    for m in re.finditer(r"\bif\s+([^{};]+?)\s*\{", body):
        c = m.group(1)
        if not (re.search(r"(?<![.\w])start\b", c) and re.search(r"(?<![.\w])end\b", c)):
            continue
        cond = parse_expr(c)
        tail = body[m.end():m.end() + 400]
        tail = tail[:tail.index("}")] if "}" in tail else tail
        asg = {}
        for lv in assigned:
            am = re.search(re.escape(lv) + r"\s*=\s*([^;=][^;]*);", tail)
            if not am:
                raise Unsupported(f"no assignment to {lv} after the filter")
            asg[lv] = parse_expr(am.group(1))
        out.append((cond, asg))
    return out


def early_errors(src, fn_name):
    """the conditions of `if <cond> { return Err(` inside fn `fn_name`, in source order -> [cond_ast]"""
    body = find_fn(src, fn_name)
    return [parse_expr(m.group(1)) for m in re.finditer(r"\bif\s+([^{};]+?)\s*\{\s*return\s+Err\(", body)]


def fn_region(src, fn_name, after=None):
    """text of fn `fn_name`; with `after`, only the part following the first occurrence of that marker text"""
    body = re.sub(r"//[^\n]*", "", find_fn(src, fn_name))      # comments may contain `if …` prose
    if after is not None:
        i = body.find(after)
        if i < 0:
            raise Unsupported(f"marker {after!r} not found in {fn_name}")
        body = body[i:]
    return body


def let_expr(body, name, nth=0):
    """the expression of the nth `let [mut] name [: T] = <expr>;` in `body`"""
    ms = list(re.finditer(r"\blet\s+(?:mut\s+)?" + re.escape(name) + r"(?:\s*:\s*[^=;]+)?\s*=\s*([^;]+);", body))
    if len(ms) <= nth:
        raise Unsupported(f"let {name} (#{nth}) not found")
    return parse_expr(ms[nth].group(1))


def assign_expr(body, lvalue, op="=", nth=0):
    """the right-hand side of the nth `lvalue op <expr>;` (op is `=`, `+=` or `-=`; `let` bindings excluded)"""
    ms = [m for m in re.finditer(r"(?<![.\w])" + re.escape(lvalue) + r"\s*" + re.escape(op) + r"(?!=)\s*([^;]+);", body)
          if not re.search(r"\blet\s+(?:mut\s+)?$", body[:m.start()])]
    if len(ms) <= nth:
        raise Unsupported(f"assignment {lvalue} {op} (#{nth}) not found")
    return parse_expr(ms[nth].group(1))


def if_conds(body):
    """every `if <cond> {` / `while <cond> {` condition of `body` that the expression parser accepts, in source order"""
    out = []
    for m in re.finditer(r"\b(?:if|while)\s+([^{};]+?)\s*\{", body):
        if re.match(r"let\b", m.group(1)):
            continue
        try:
            out.append(parse_expr(m.group(1)))
        except Unsupported:
            pass
    return out


def closure_body(body, param, exactly, nth=0):
    """the body expression of the nth one-expression closure `|param| <expr>)` in `body` whose free variables are
    exactly the set `exactly`"""
    es = []
    for m in re.finditer(r"\|\s*" + re.escape(param) + r"\s*\|\s*([^(){};|]+)\)", body):
        try:
            e = parse_expr(m.group(1))
        except Unsupported:
            continue
        if _vars_but_consts(e) == set(exactly):
            es.append(e)
    if len(es) <= nth:
        raise Unsupported(f"closure |{param}| over {sorted(exactly)} (#{nth}) not found")
    return es[nth]


def _vars_but_consts(e):
    """free variables, named constants (ALL_CAPS identifiers) aside: `limit <= prev + MIN_LEN` is a condition over limit, prev"""
    return {v for v in free_vars(e) if not re.fullmatch(r"[A-Z][A-Z0-9_]*", v)}


def cond_over(body, exactly, nth=0):
    """the nth condition whose free variables (named constants aside) are exactly the set `exactly`"""
    cs = [c for c in if_conds(body) if _vars_but_consts(c) == set(exactly)]
    if len(cs) <= nth:
        raise Unsupported(f"no condition (#{nth}) over {sorted(exactly)}")
    return cs[nth]


def subst(e, name, repl):
    """e with variable `name` replaced by the expression `repl`"""
    if e[0] == "var":
        return repl if e[1] == name else e
    return tuple(subst(x, name, repl) if isinstance(x, tuple) else
                 ([subst(y, name, repl) for y in x] if isinstance(x, list) else x) for x in e)


def vec_len_expr(body, name):
    """the length expression of `let [mut] name[: T] = vec![<fill>; <len>];` in `body`"""
    m = re.search(r"\blet\s+(?:mut\s+)?" + re.escape(name) + r"(?:\s*:\s*[^=;]+)?\s*=\s*vec!\[[^;\]]+;\s*([^\]]+)\]\s*;", body)
    if not m:
        raise Unsupported(f"let {name} = vec![…; …] not found")
    return parse_expr(m.group(1))


def inline_lets(e, body, params, depth=6, consts=None):
    """free variables of `e` that are not parameters are replaced by the expression of their `let` in `body`, or of
    their `const` in the file text `consts` (repeatedly)"""
    for _ in range(depth):
        extra = sorted(free_vars(e) - set(params))
        if not extra:
            return e
        for v in extra:
            try:
                e = subst(e, v, let_expr(body, v))
            except Unsupported:
                if consts is None:
                    raise
                m = re.search(r"\bconst\s+" + re.escape(v) + r"\s*:\s*[^=;]+=\s*([^;]+);", consts)
                if not m:
                    raise
                e = subst(e, v, parse_expr(m.group(1)))
    raise Unsupported("let bindings do not resolve to the parameters: " + str(sorted(free_vars(e) - set(params))))


def field_expr(body, field, nth=0):
    """the expression of the nth `field: <expr>,` of a struct literal in `body`"""
    ms = list(re.finditer(r"(?<![.\w])" + re.escape(field) + r"\s*:\s*([^,{};]+),", body))
    if len(ms) <= nth:
        raise Unsupported(f"struct field {field} (#{nth}) not found")
    return parse_expr(ms[nth].group(1))


def typed_def(name, params, ret, e):
    """params: [(name, leanType)]"""
    ps = " ".join(f"({p + '_' if p in RESERVED else p} : {t})" for p, t in params)
    return f"def {name} {ps} : {ret} :=\n  {lean(e)}"


def disj(conds):
    e = ("bool", "false")
    for c in conds:
        e = c if e == ("bool", "false") else ("bin", "||", e, c)
    return e


def lean_def(name, params, ret, e):
    ps = " ".join(f"({p + '_' if p in RESERVED else p} : Nat)" for p in params)
    return f"def {name} {ps} : {ret} :=\n  {lean(e)}"


if __name__ == "__main__":
    import sys
    print(translate(open(sys.argv[1]).read(), sys.argv[2:]))
