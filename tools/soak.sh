#!/bin/sh
# usage: tools/soak.sh <first seed> <last seed> [IDs…]  — quick checks under other seeds on the unchanged tree (false-alarm hunt).
# Evidence files are restored afterwards: soak output is not evidence.
a=$1; b=$2; shift 2
ids="${*:-C01 C02 C03 C04 C05 C06 C07 C08 C09 C10 C11 C12 C13 C14 C15 C16 C17 C18 C19 C20}"
cd /verif || exit 2
mkdir -p build/soak; cp evidence/*.json build/soak/
s=$a
while [ $s -le $b ]; do
  for id in $ids; do
    VERIF_SEED=$s ./check $id quick > build/soak/$id.$s.log 2>&1; rc=$?
    [ $rc -ne 0 ] && echo "SOAK seed=$s $id rc=$rc $(grep -m1 '^VIOLATION' build/soak/$id.$s.log | cut -c1-160)"
  done
  echo "SOAK seed=$s done"
  s=$((s+1))
done
cp build/soak/C??.json evidence/
