#!/bin/sh
# usage: tools/soak.sh <first seed> <last seed> [IDs…]  — checks under other seeds on the unchanged tree (false-alarm hunt).
#   SOAK_TIER=thorough runs the thorough tier. Evidence files are restored afterwards: soak output is not evidence.
#   In a background snapshot: vp run --with-repo -- sh -c 'export VERIF_REPO=$VP_RUN_REPO; ./check --setup && tools/soak.sh 7 12'
a=$1; b=$2; shift 2
ids="${*:-C01 C02 C03 C04 C05 C06 C07 C08 C09 C10 C11 C12 C13 C14 C15 C16 C17 C18 C19 C20}"
tier="${SOAK_TIER:-quick}"
cd "$(dirname "$0")/.." || exit 2
mkdir -p build/soak; cp evidence/*.json build/soak/
s=$a
while [ $s -le $b ]; do
  for id in $ids; do
    t0=$(date +%s)
    VERIF_SEED=$s ./check $id $tier > build/soak/$id.$s.log 2>&1; rc=$?
    [ $rc -ne 0 ] && echo "SOAK seed=$s $id rc=$rc $(grep -m1 '^VIOLATION' build/soak/$id.$s.log | cut -c1-160)"
    [ "$tier" = thorough ] && echo "SOAK seed=$s $id $tier rc=$rc $(( $(date +%s) - t0 )) s"
  done
  echo "SOAK seed=$s done"
  s=$((s+1))
done
cp build/soak/C??.json evidence/
