"""Base class of the properties that write a bigWig / bigBed and read it back."""
import os
from vlib import Prop, CaseT, run_model
import bbgen


class WigBedProp(Prop):
    impl_timeout = 30
    removable = ("V", "E", "Q")
    view_tags = ("R", "OPEN", "CHROMS", "HDR", "A")

    def model_extra(self, case, il):
        if case.kind in ("readwig", "readbed") and self.pid != "C10":
            return []
        z = bbgen.first_line(il, "ZOOMS")
        return ["LEVELS" + (z[5:] if z else "")]

    # files from the independent encoder of C10 (either byte order, any index layout, section types, permuted ids): the
    # readers' byte-order arms and decoders that no bigtools-written file reaches. Judged by C10's oracle and comparison.
    def foreign_cases(self, rng, tier, bed, quick_n, thorough_n, readers=("plain", "cached", "fresh", "freshcached")):
        from props import C10 as c10
        out = []
        for k in range(thorough_n if tier == "thorough" else quick_n):
            c = c10.foreign_case(rng.fork(f"foreign{k}"), f"f{k}", bed=bed, readers=readers)
            if c is not None:
                c.tags.add("foreign_file")
                out.append(c)
        return out

    def foreign_oracle(self, case, il):
        from props import C10 as c10
        return c10.PROP.oracle(case, il)

    def compare(self, case, il, ml):
        if case.kind in ("readwig", "readbed") and self.pid != "C10":
            from props import C10 as c10
            return c10.PROP.compare(case, il, ml)
        return super().compare(case, il, ml)

    def view(self, lines):
        return [bbgen.canon_zoom_answer(l) for l in lines if l.split(" ")[0] in self.view_tags]

    def nontrivial(self, case, il):
        return bool(case.tags & {"multi_chrom", "multi_section", "nt"})

    @staticmethod
    def common_tags(o, names, data, tags):
        if len(names) > 1:
            tags.add("multi_chrom")
        if any(len(data[nm]) > o["ips"] for nm in names):
            tags.add("multi_section")
        for key in ("compress", "pass", "src", "rt", "inmem"):
            tags.add(f"{key}={o[key]}")
        return tags


def byte_level_check(self, rep, workdir):
    """(B) byte-level correspondence: the model writer's bytes vs the real file, where the model applies
    (manual or no zooms; bigWig: integer values; bigBed: every input — its statistics are coverage depths; compressed files: with the real file's blocks handed to the model, which checks that they inflate to its own sections). Evidence of model fidelity; a mismatch here with the
    observables intact is a NOTE, not a violation (a layout-preserving rewrite must not raise an alarm)."""
    stage = []
    import bbi_codec
    import subprocess
    seen_inputs = set()
    for c in self._last_cases:
        o = c.opts()
        if c.kind not in ("wig", "bed") or o.get("zooms") == "auto" or (self._last_impl.get(c.id) or ["x"])[0] != "R ok" or "skip_model_extras" in c.tags:
            continue
        # one model run per (input, format options): run-time configurations of the same input must give the same bytes
        # anyway (C11 compares them with each other), and the model is the slow side
        key = (c.kind, tuple(c.lines[1:]), o.get("compress"), o.get("ips"), o.get("bs"), o.get("zooms"), o.get("sort"),
               (self._last_impl.get(c.id) or ["", "", ""])[2] if o.get("compress") != "0" else "")
        if key in seen_inputs:
            continue
        seen_inputs.add(key)
        if c.kind == "wig" and (c.tags & {"zero_length_mid", "zero_length_at_0", "zero_length_at_end"}):
            continue
        extra = []
        if o.get("compress") != "0":
            # zlib is a parameter of the model: hand it every block of the real file (compressed bytes, and what the
            # independent Python inflater makes of them) in file order; the model checks they inflate to ITS sections
            path = os.path.join(workdir, "main", "out", c.id + ".bin")
            try:
                data = open(path, "rb").read()
                dec = bbi_codec.decode(data)
                extra = [f"DEFL {data[off:off + size].hex() or '-'} {inflated or '-'}" for off, size, inflated in dec["inflate_table"]]
            except Exception:
                continue
        stage.append(CaseT("wb_" + c.id, "wigbytes" if c.kind == "wig" else "bedbytes", [], c.lines + extra))
    try:
        mo = run_model(stage, os.path.join(workdir, "bytes"), timeout=1500)
    except subprocess.TimeoutExpired:
        rep.notes.append(f"(B) byte-level: the model writer did not finish {len(stage)} files within its time limit; skipped (evidence only)")
        return
    eq = ne = na = 0
    fileof_eq = fileof_ne = 0
    first = None
    for sc in stage:
        ml = (mo.get(sc.id) or ["BYTES na"])[0]
        il = next((l for l in self._last_impl[sc.id[3:]] if l.startswith("BYTES")), "BYTES ?")
        fo = next((l for l in (mo.get(sc.id) or []) if l.startswith("FILEOF")), None)
        if fo == "FILEOF eq":
            fileof_eq += 1
        elif fo:
            fileof_ne += 1
            if fileof_ne == 1:
                rep.notes.append(f"(B) byte-level: the model file `BBI.fileOf` is not the written bytes for case {sc.id[3:]} ({fo}); evidence only")
        if ml == "BYTES na":
            na += 1
        elif ml == il:
            eq += 1
        else:
            ne += 1
            first = first or (sc.id[3:], il, ml)
    nbed = sum(1 for sc in stage if sc.kind == "bedbytes")
    rep.coverage["byte_level_model_writer"] = {"bigbed_files_among_them": nbed, "files_compared": eq + ne, "byte_equal": eq, "different": ne, "model_not_applicable": na,
                                               "fileOf_model_equals_these_bytes": fileof_eq, "fileOf_model_differs": fileof_ne}
    if first:
        rep.notes.append(f"(B) byte-level: model writer and real writer differ on {ne} files (first: case {first[0]}: real `{first[1]}` model `{first[2]}`); observables agree, so this is a note")
    rep.evals += eq + ne

