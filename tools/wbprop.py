"""Base class of the properties that write a bigWig / bigBed and read it back."""
from vlib import Prop, CaseT
import bbgen


class WigBedProp(Prop):
    impl_timeout = 30
    removable = ("V", "E", "Q")
    view_tags = ("R", "OPEN", "CHROMS", "HDR", "A")

    def model_extra(self, case, il):
        z = bbgen.first_line(il, "ZOOMS")
        return ["LEVELS" + (z[5:] if z else "")]

    def view(self, lines):
        return [l for l in lines if l.split(" ")[0] in self.view_tags]

    def nontrivial(self, case, il):
        return bool(case.tags & {"multi_chrom", "multi_section", "nt"})

    @staticmethod
    def common_tags(o, names, data, tags):
        if len(names) > 1:
            tags.add("multi_chrom")
        if any(len(data[nm]) > o["ips"] for nm in names):
            tags.add("multi_section")
        for key in ("compress", "pass", "src", "rt", "inmem"):
            tags.add(f"{key}={o[key]}")
        return tags
