"""Shared generators and independent oracles for the bigWig / bigBed write-then-read cases
(C01–C11, C13, C14, C16, C17). Everything is derived from one Prng."""
from vlib import CaseT, f32bits, bits_f32, hexs, unhex

NAMES = ["chr1", "chr2", "chr10", "chrX", "c", "chrUn_gl000220", "scaffold_7", "chrM", "A", "chr2L"]
MORE_NAMES = NAMES + ["chr3", "chr4", "chr11", "chrY", "b", "Zv9_NA1", "scaffold_12", "B", "chr3R", "d", "chr21", "e5", "k", "chr22"]
INT_VALUES = [1, 2, 3, 5, 7, -1, -2, 4, 8, 0]


def pick_chroms(rng, n, sorted_names=True):
    names = []
    pool = list(NAMES if n <= len(NAMES) else MORE_NAMES)
    for _ in range(n):
        i = rng.below(len(pool))
        names.append(pool.pop(i))
    if sorted_names:
        names.sort()                      # Rust String order = byte order for ASCII
    return names


def gen_options(rng, tier="quick", allow=None, zoom_mode=None):
    o = {}
    o["compress"] = rng.choice([0, 1])
    o["ips"] = rng.choice([1, 2, 3, 7, 1024, 65535] if rng.chance(1, 8) else [1, 2, 3, 7, 1024])
    o["bs"] = rng.choice([2, 3, 5, 256])
    zm = zoom_mode or rng.choice(["manual", "manual", "auto", "none", "autosmall"])
    if zm == "manual":
        o["zooms"] = rng.choice(["10", "10,40", "5,20,80", "4", "16,64,256", "3,9,27,81"])
    elif zm == "auto":
        o["zooms"] = "auto"
    elif zm == "autosmall":
        o["zooms"] = "auto"
        o["izs"] = rng.choice([2, 4, 10])
        o["nzooms"] = rng.choice([1, 3, 10, 12, 15])      # the zoom directory has room for ten levels
    else:
        o["zooms"] = "none"
    o["pass"] = rng.choice([1, 2])
    o["inmem"] = rng.choice([0, 1])
    o["rt"] = rng.choice(["mt", "mt", "ct"])
    o["threads"] = 1 if o["rt"] == "ct" else rng.choice([1, 2, 3, 4, 8])
    o["chan"] = 0 if o["rt"] == "ct" else rng.choice([0, 1, 100])
    o["src"] = rng.choice(["iter", "iter", "file", "par"])
    o["sort"] = "all"
    if allow:
        for k, v in allow.items():
            o[k] = v
    return o


def opt_line(o):
    return "OPT " + " ".join(f"{k}={v}" for k, v in o.items())


# ------------------------------------------------------------------------------------------------
# bigWig inputs

def gen_wig_values(rng, length, style, maxn, value_mode):
    """sorted, non-overlapping values inside [0, length]; returns list of (s, e, bits) and a tag set"""
    tags = set()
    vals = []
    pos = 0
    n = rng.range(1, maxn)
    if style == "touch_ends":
        pos = 0
    elif style != "dense":
        pos = rng.range(0, max(0, min(length - 1, 30)))
    for i in range(n):
        if pos >= length:
            break
        if style == "dense":
            gap = 0
        elif style == "sparse":
            gap = rng.range(0, max(1, length // (2 * n)))
        else:
            gap = rng.choice([0, 0, 1, 2, 3, 9, 10, 11, 25, 41])
        s = pos + gap if i else pos
        if s >= length:
            break
        ln = rng.choice([1, 1, 2, 3, 5, 7, 10, 15, 23, 40, 64]) if style != "long" else rng.range(20, 200)
        e = min(length, s + ln)
        if style == "touch_ends" and i == n - 1:
            e = length
            if e <= s:
                break
        if e <= s:
            break
        if value_mode == "int":
            v = rng.choice(INT_VALUES)
            bits = f32bits(float(v))
        else:
            # arbitrary finite f32 bit patterns (no inf / nan)
            while True:
                b = rng.below(1 << 32)
                if ((b >> 23) & 0xFF) != 0xFF:
                    break
            bits = f"{b:08x}"
        vals.append((s, e, bits))
        pos = e
    if vals and vals[0][0] == 0:
        tags.add("touches_0")
    if vals and vals[-1][1] == length:
        tags.add("touches_end")
    return vals, tags


def gen_wig_input(rng, nchrom=None, value_mode="int", maxn=14, sorted_names=True, lengths=(50, 100, 257, 1000, 5000, 70000)):
    nchrom = nchrom or rng.choice([1, 1, 2, 3, 4, 6])
    names = pick_chroms(rng, nchrom, sorted_names)
    sizes, data, tags = {}, {}, set()
    for nm in names:
        length = rng.choice(list(lengths))
        style = rng.choice(["dense", "sparse", "mixed", "mixed", "touch_ends", "long"])
        vals, t = gen_wig_values(rng, length, style, rng.choice([1, 3, maxn, maxn]), value_mode)
        if not vals:
            vals = [(0, min(length, 5), f32bits(1.0))]
        sizes[nm] = length
        data[nm] = vals
        tags |= t | {"style_" + style}
    return names, sizes, data, tags


def halfway_decimal(rng):
    """a decimal text within 10^-30 … 10^-60 (relative) of the midpoint between two adjacent positive f32 values, and the bits of the
    f32 nearest to it: a parser that goes through f64 first rounds twice and lands on the other neighbour"""
    import struct
    from decimal import Decimal, getcontext
    getcontext().prec = 120                 # the midpoint and the offset must be exact
    while True:
        b = rng.below(1 << 31)
        if 1 <= ((b >> 23) & 0xFF) <= 0xFD:
            break
    x = struct.unpack(">f", struct.pack(">I", b))[0]
    y = struct.unpack(">f", struct.pack(">I", b + 1))[0]
    mid = (Decimal(x) + Decimal(y)) / 2
    eps = Decimal(10) ** (mid.adjusted() - rng.choice([30, 45, 60]))
    up = rng.chance(1, 2)
    dec = mid + eps if up else mid - eps
    return (b + 1 if up else b), format(dec, "f")


def gen_genome_scale(rng, bed=False, value_mode="int", nitems=None):
    """genome-scale coordinates: chromosomes of up to 2^32 - 1 bases, positions far above 2^24 (where f32 stops being exact
    for integers), values/entries longer than 2^24 and 2^25 bases with odd lengths, and 20–100 widely spaced items (a data
    section that hardly compresses). Returns names, sizes, data, tags like gen_wig_input / gen_bed_input."""
    names = pick_chroms(rng, rng.choice([1, 2, 3]))
    sizes, data = {}, {}
    for nm in names:
        n = nitems or rng.choice([3, 8, 30, 60, 100])
        pos = rng.choice([0, 5, rng.below(10 ** 7), (1 << 24) - 3])
        items = []
        sparse = n > 10 and rng.chance(2, 3)          # every gap and length random: nothing for deflate to find
        for i in range(n):
            ln = rng.choice([1, 7, 1000, (1 << 24) + 1, (1 << 24) + 3, (1 << 25) + 2, 10 ** 8 + 1, rng.range(1, 10 ** 7), rng.range(1, 10 ** 7)])
            if n > 10:
                ln = rng.range(1, 10 ** 7)
            if pos + ln > 4294967295 - 10:
                break
            if bed:
                back = rng.choice([0, 0, 0, 1, ln // 2]) if items else 0          # overlapping / nested long entries
                s0 = max(items[-1][0], pos - back) if items else pos
                items.append((s0, s0 + ln, ""))
                pos = max(pos, s0 + ln)
            else:
                if value_mode == "int":
                    bits = f32bits(float(rng.choice(INT_VALUES)))
                elif value_mode == "dec":
                    bits = f32bits(float(rng.range(1, 99999)) / 100.0)
                else:
                    while True:
                        b = rng.below(1 << 32)
                        if ((b >> 23) & 0xFF) != 0xFF:
                            break
                    bits = f"{b:08x}"
                items.append((pos, pos + ln, bits))
                pos += ln
            pos += rng.range(1, 10 ** 7) if sparse else rng.choice([0, 1, rng.range(1, 10 ** 7), rng.range(1, 10 ** 7)])
        if not items:
            items = [(0, 5, "") if bed else (0, 5, f32bits(1.0))]
        end = max(e for (_, e, _) in items)
        sizes[nm] = min(4294967295, end + rng.choice([0, 5, 10 ** 6, 4294967295]))
        data[nm] = items
    return names, sizes, data, {"genome_scale"}


def short_dest_case(rng, cid, bed, zoom_queries=False):
    """a write to a destination whose `write` accepts only part of a large buffer (legal for any `Write`; sockets, pipes and
    wrappers do it): sections and staged zoom levels of MORE than one BufWriter load (8 KiB), so the writer's own calls reach
    the destination directly. Uncompressed, 1024 items per section, in-memory or temp-file staging, either pass mode."""
    from vlib import CaseT
    names = ["chrA", "chrB"]
    sizes = {n: 40000 for n in names}
    n_items = rng.range(1100, 2200)
    if bed:
        data = {n: [(i * 9, i * 9 + 5, "n%d\t%d" % (i, i % 1000)) for i in range(n_items + 37 * j)] for j, n in enumerate(names)}
        body = bed_lines(names, sizes, data)
    else:
        data = {n: [(i * 9, i * 9 + 4, f32bits(float(1 + (i * 31 + j) % 17))) for i in range(n_items + 37 * j)] for j, n in enumerate(names)}
        body = wig_lines(names, sizes, data)
    o = {"compress": 0, "ips": 1024, "bs": 256, "zooms": "16,64", "pass": rng.choice([1, 2]), "inmem": rng.choice([0, 1]), "rt": rng.choice(["ct", "mt"]),
         "threads": rng.choice([1, 2]), "chan": 100, "src": "iter", "sort": "all", "destmax": rng.choice([1000, 1500, 4096, 8191])}
    if o["rt"] == "ct":
        o["threads"] = 1
    lines = [opt_line(o)] + body + [f"Q iv {n} 0 {sizes[n]}" for n in names] + [f"Q iv chrB 9000 9100"]
    if zoom_queries:
        lines += [f"Q zoom {n} 0 {sizes[n]} #{lv}" for lv in (0, 1) for n in names] + ["Q zoom chrB 9000 9500 #0"]
    return CaseT(cid, "bed" if bed else "wig", [], lines, {"destination_accepts_short_writes", "multi_chrom", "multi_section", "nt", "bed" if bed else "wig"})


def inject_zero_length_wig(rng, names, sizes, data, tags, ends_ok=False):
    """zero-length values (start = end: legal, accepted by the writer) in the middle of a chromosome, as its first and —
    the shape several end-of-chromosome paths depend on — as its LAST item. Positions 0 and the chromosome length are
    used only with ends_ok (D5 lives there)."""
    nm = rng.choice(names)
    vals = list(data[nm])
    where = rng.choice(["last", "last", "mid", "first", "last_far"])
    v = vals[-1][2]
    if where == "mid" and len(vals) >= 2:
        i = rng.range(1, len(vals) - 1)
        p = rng.choice([vals[i - 1][1], vals[i][0]])
        vals.insert(i, (p, p, v))
    elif where == "first" and (vals[0][0] > 0 or ends_ok):
        p = rng.range(0 if ends_ok else 1, vals[0][0])
        vals.insert(0, (p, p, v))
    elif where == "last_far" and (vals[-1][1] + 1 < sizes[nm] or ends_ok):
        hi = sizes[nm] if ends_ok else sizes[nm] - 1
        p = rng.range(vals[-1][1], hi)
        vals.append((p, p, v))
    elif vals[-1][1] < sizes[nm] or ends_ok:
        vals.append((vals[-1][1], vals[-1][1], v))
    else:
        return
    data[nm] = vals
    tags.add("zero_length_value")
    if vals[-1][0] == vals[-1][1]:
        tags.add("zero_length_last")


def free_chrom_order(rng, names, o, tags, num=1, den=5):
    """with chance num/den: the chromosomes come in an order that is NOT the byte order of their names, which the writers
    accept when chromosome order is not required (sort=start). Ids then follow first appearance, not names. Returns names."""
    if len(names) < 2 or not rng.chance(num, den):
        return names
    perm = list(names)
    while perm == sorted(perm):
        perm = [perm.pop(rng.below(len(perm))) for _ in range(len(perm))]
    o["sort"] = "start"
    if o.get("src") in ("par", "parix"):
        o["src"] = "file"
    tags.add("chrom_order_free")
    return perm


def wig_lines(names, sizes, data, extra_sizes=()):
    lines = [f"CHROM {n} {sizes[n]}" for n in sizes]
    for n, l in extra_sizes:
        lines.append(f"CHROM {n} {l}")
    for n in names:
        for (s, e, b) in data[n]:
            lines.append(f"V {n} {s} {e} {b}")
    return lines


def boundary_points(items, length, cuts=()):
    pts = {0, length}
    for it in items:
        for p in (it[0], it[1]):
            for d in (-1, 0, 1):
                if 0 <= p + d <= length:
                    pts.add(p + d)
    for c in cuts:
        for d in (-1, 0, 1):
            if 0 <= c + d <= length:
                pts.add(c + d)
    return sorted(pts)


def gen_queries(rng, names, sizes, data, kinds, nq, zoom_levels=0, ips=None, strict_nonempty=False):
    """queries on boundary points; kinds ⊆ {iv, vals, zoom}"""
    qs = []
    for _ in range(nq):
        n = rng.choice(names)
        items = data[n]
        cuts = []
        if ips:
            cuts = [items[i][0] for i in range(0, len(items), ips)]
        pts = boundary_points(items, sizes[n], cuts)
        a, b = rng.choice(pts), rng.choice(pts)
        if a > b:
            a, b = b, a
        if strict_nonempty and a == b:
            if b < sizes[n]:
                b += 1
            elif a > 0:
                a -= 1
        k = rng.choice(kinds)
        if k == "vals" and b - a > 3000:
            b = a + 3000
        if k == "zoom":
            qs.append(f"Q zoom {n} {a} {b} #{rng.below(max(1, zoom_levels))}")
        else:
            qs.append(f"Q {k} {n} {a} {b}")
    return qs


# ------------------------------------------------------------------------------------------------
# bigBed inputs

def gen_bed_entries(rng, length, style, maxn, with_rest=True, allow_zero_len=True):
    ents = []
    n = rng.range(1, maxn)
    pos = rng.range(0, min(20, length - 1))
    if style == "long_then_short":
        ents.append((pos, min(length, pos + rng.range(200, 2000)), ""))
    for i in range(n):
        if style == "disjoint":
            pos += rng.choice([0, 1, 5, 12, 30])
            ln = rng.choice([1, 2, 5, 10, 17])
        elif style == "nested":
            pos += rng.choice([0, 0, 1, 2])
            ln = rng.choice([1, 3, 10, 40, 100])
        elif style == "dup":
            pos += rng.choice([0, 0, 0, 3])
            ln = rng.choice([10, 10, 5])
        elif style == "long_then_short":
            pos += rng.choice([1, 3, 10, 30])
            ln = rng.choice([1, 2, 5, 10])
        else:
            pos += rng.choice([0, 1, 2, 7, 10, 11, 25])
            ln = rng.choice([0, 1, 2, 5, 10, 15, 30, 64]) if allow_zero_len else rng.choice([1, 2, 5, 10, 15, 30, 64])
        if pos >= length:
            break
        e = min(length, pos + ln)
        rest = ""
        if with_rest and rng.chance(2, 3):
            ncol = rng.choice([1, 1, 2, 3, 6, 9])
            cols = []
            for c in range(ncol):
                cols.append(rng.choice(["name" + str(i), "0", "+", "-", "1000", "é", "a b", "x,y", "255,0,0", "."]))
            rest = "\t".join(cols)
        ents.append((pos, e, rest))
    ents.sort(key=lambda x: x[0])
    return ents


def gen_bed_input(rng, nchrom=None, maxn=12, with_rest=True, sorted_names=True, styles=None, allow_zero_len=True,
                  lengths=(100, 300, 1000, 5000, 80000)):
    nchrom = nchrom or rng.choice([1, 1, 2, 3, 5])
    names = pick_chroms(rng, nchrom, sorted_names)
    sizes, data, tags = {}, {}, set()
    for nm in names:
        length = rng.choice(list(lengths))
        style = rng.choice(styles or ["disjoint", "nested", "dup", "long_then_short", "mixed", "mixed"])
        ents = gen_bed_entries(rng, length, style, rng.choice([1, 3, maxn, maxn]), with_rest, allow_zero_len)
        ents = [x for x in ents if not (x[0] == 0 and x[1] == 0)]      # (0,0) is the reader's padding marker (D5)
        if not ents:
            ents = [(1, min(length, 6), "")]
        sizes[nm] = length
        data[nm] = ents
        tags.add("style_" + style)
        mx = 0
        for (s, e, _) in ents[:-1]:
            mx = max(mx, e)
        if ents and mx > ents[-1][1]:
            tags.add("max_end_not_last")
        if any(s == e for (s, e, _) in ents):
            tags.add("zero_length")
    return names, sizes, data, tags


def bed_lines(names, sizes, data):
    lines = [f"CHROM {n} {sizes[n]}" for n in sizes]
    for n in names:
        for (s, e, r) in data[n]:
            lines.append(f"E {n} {s} {e} {hexs(r)}")
    return lines


# ------------------------------------------------------------------------------------------------
# reading answers back

def answer_lines(il):
    return {int(l.split(" ")[1]): l for l in il if l.startswith("A ")}


def parse_iv(line):
    """`A i ok s:e:x …` -> list of (s, e, x)"""
    t = line.split(" ")
    out = []
    for tok in t[3:]:
        a, b, c = tok.split(":")
        out.append((int(a), int(b), c))
    return out


def f32_of(x):
    """the single-precision number nearest to x (ties to even), as a Python float"""
    import struct
    from fractions import Fraction
    try:
        return struct.unpack("f", struct.pack("f", float(x)))[0] if abs(Fraction(x)) < 2 ** 53 else float(x)
    except (OverflowError, ValueError):
        return float(x)


def canon_zoom_answer(line):
    """`A k ok | chrom start end … sum sumsq | …`: the last two fields of every record (stored in single precision) rounded to f32, so
    that the model's exact integers and the stored values are compared on what the format can hold"""
    if not line.startswith("A ") or " | " not in line:
        return line
    parts = line.split(" | ")
    out = [parts[0]]
    for p in parts[1:]:
        f = p.split(" ")
        if len(f) >= 8:
            for i in (-2, -1):
                try:
                    f[i] = repr(f32_of(float(f[i])))
                except ValueError:
                    pass
        out.append(" ".join(f))
    return " | ".join(out)


def parse_zoom(line):
    recs = []
    parts = line.split(" | ")
    for p in parts[1:]:
        f = p.split(" ")
        if f[0] == "err":
            recs.append(None)
        else:
            recs.append(tuple(f))
    return recs


def first_line(il, tag):
    for l in il:
        if l.startswith(tag + " ") or l == tag:
            return l
    return None


def case_input_wig(case):
    sizes = {l[1]: int(l[2]) for l in case.records("CHROM")}
    data, order = {}, []
    for l in case.records("V"):
        if l[1] not in data:
            data[l[1]] = []
            order.append(l[1])
        data[l[1]].append((int(l[2]), int(l[3]), l[4]))
    return order, sizes, data


def case_input_bed(case):
    sizes = {l[1]: int(l[2]) for l in case.records("CHROM")}
    data, order = {}, []
    for l in case.records("E"):
        if l[1] not in data:
            data[l[1]] = []
            order.append(l[1])
        data[l[1]].append((int(l[2]), int(l[3]), l[4]))
    return order, sizes, data


def fnum_to_float(tok):
    if tok == "nan":
        return float("nan")
    if tok.startswith("f64:"):
        import struct
        return struct.unpack(">d", bytes.fromhex(tok[4:]))[0]
    return float(int(tok))


# ------------------------------------------------------------------------------------------------
# independent property oracles (plain Python over the case's input; no bigtools code, no model code)

def basic_ok(il):
    r = il[0] if il else "R missing"
    if r.startswith("R panic"):
        return "the write call or the read-back panicked on a valid input: " + bytes.fromhex(r.split(" ")[2]).decode(errors="replace")[:160] if len(r.split(" ")) > 2 and r.split(" ")[2] != "-" else "the write call or the read-back panicked on a valid input"
    if r.startswith("R hang"):
        return "the write call did not return on a valid input (hang)"
    if r.startswith("R err"):
        return f"the writer refused a valid input with {r[6:40]}"
    if r != "R ok":
        return f"no result for a valid input ({r[:40]})"
    if first_line(il, "OPEN") != "OPEN ok":
        return "the written file cannot be opened: " + str(first_line(il, "OPEN"))
    return None


def oracle_wig_queries(case, il):
    """every iv / vals answer = stored values that overlap the range, clipped, in order"""
    order, sizes, data = case_input_wig(case)
    ans = answer_lines(il)
    for qi, q in enumerate(case.records("Q")):
        if q[1] not in ("iv", "vals"):
            continue
        a = ans.get(qi, f"A {qi} missing")
        s, e = int(q[3]), int(q[4])
        if q[2] not in data:
            continue                      # a chromosome without data is not in the file: the query is refused
        vals = data.get(q[2], [])
        if not a.startswith(f"A {qi} ok"):
            return f"query {q[1]} {q[2]}:{s}-{e} failed: `{a[:80]}`"
        want = [(max(vs, s), min(ve, e), b) for (vs, ve, b) in vals if ve > s and vs < e]
        if q[1] == "iv":
            got = parse_iv(a)
            if got != want:
                extra = [g for g in got if g not in want]
                missing = [w for w in want if w not in got]
                return (f"interval query {q[2]}:{s}-{e} returned {len(got)} values, the stored values overlapping it are "
                        f"{len(want)}; missing {missing[:2]} unexpected {extra[:2]}")
        else:
            cells = []
            for tok in a.split(" ")[3:]:
                v, n = tok.split("*")
                cells += [v] * int(n)
            wantc = ["nan"] * (e - s)
            for (vs, ve, b) in want:
                for p in range(vs, ve):
                    wantc[p - s] = "nan" if bits_is_nan(b) else b
            if cells != wantc:
                i = next((i for i, (x, y) in enumerate(zip(cells + ["<none>"] * len(wantc), wantc)) if x != y), len(cells))
                return f"per-base values {q[2]}:{s}-{e}: base {s + i} is `{cells[i] if i < len(cells) else 'missing'}`, stored `{wantc[i] if i < len(wantc) else 'nothing'}` ({len(cells)} cells for {e - s} bases)"
    return None


def bits_is_nan(b):
    x = int(b, 16)
    return ((x >> 23) & 0xFF) == 0xFF and (x & 0x7FFFFF) != 0


def oracle_bed_queries(case, il, exact_full_span=False):
    """strictly overlapping ⊆ answer ⊆ touching, as sub-sequences of the stored order, each entry once"""
    order, sizes, data = case_input_bed(case)
    ans = answer_lines(il)
    for qi, q in enumerate(case.records("Q")):
        if q[1] != "iv":
            continue
        a = ans.get(qi, f"A {qi} missing")
        s, e = int(q[3]), int(q[4])
        if q[2] not in data:
            continue
        ents = data.get(q[2], [])
        if not a.startswith(f"A {qi} ok"):
            return f"query {q[2]}:{s}-{e} failed: `{a[:80]}`"
        got = parse_iv(a)
        # sub-sequence of the stored entries (order kept, each stored entry used at most once)
        it = iter(ents)
        for g in got:
            for x in it:
                if x == g:
                    break
            else:
                return f"query {q[2]}:{s}-{e}: returned entry {g} is not a stored entry in stored order (duplicate, reordered or invented)"
        for g in got:
            if g[1] < s or g[0] > e:
                return f"query {q[2]}:{s}-{e}: returned entry {g[0]}-{g[1]} lies wholly outside the range"
        must = [x for x in ents if x[0] < e and x[1] > s and x[0] < x[1]] if s < e else []
        # multiset containment
        rest = list(got)
        for m in must:
            if m in rest:
                rest.remove(m)
            else:
                return f"query {q[2]}:{s}-{e}: stored entry {m[0]}-{m[1]} overlaps the range but was not returned"
        if exact_full_span and s == 0 and e == sizes.get(q[2]):
            if got != ents:
                missing = [x for x in ents if x not in got]
                return f"full-span read of {q[2]} returns {len(got)} of {len(ents)} entries; first missing {missing[:1]}"
    return None


def depth_segments(ents):
    """[(s, e, depth)] with depth > 0, maximal elementary pieces"""
    pts = sorted({p for (s, e, _) in ents for p in (s, e)})
    segs = []
    for a, b in zip(pts, pts[1:]):
        d = sum(1 for (s, e, _) in ents if s <= a and b <= e and s < e)
        if d > 0 and a < b:
            segs.append((a, b, d))
    return segs


def weighted_stats(pieces):
    """pieces: (s, e, value) disjoint -> (bases, min, max, sum, sumsq) over pieces of positive length"""
    pieces = [p for p in pieces if p[1] > p[0]]
    if not pieces:
        return (0, None, None, 0, 0)
    return (sum(e - s for s, e, _ in pieces), min(v for _, _, v in pieces), max(v for _, _, v in pieces),
            sum((e - s) * v for s, e, v in pieces), sum((e - s) * v * v for s, e, v in pieces))


def oracle_summary(case, il, bed):
    line = first_line(il, "SUM")
    if not line or line == "SUM err":
        return "no total summary: " + str(line)
    t = line.split(" ")
    count, bases = int(t[1]), int(t[2])
    mn, mx, sm, sq = (fnum_to_float(x) for x in t[3:7])
    if bed:
        order, sizes, data = case_input_bed(case)
        pieces = [seg for n in order for seg in depth_segments(data[n])]
        want_count = sum(len(data[n]) for n in order)
        ic = first_line(il, "ITEMCOUNT")
        if ic != f"ITEMCOUNT {want_count}":
            return f"item count `{ic}`, number of entries {want_count}"
    else:
        order, sizes, data = case_input_wig(case)
        pieces = []
        for n in order:
            for (s, e, b) in data[n]:
                pieces.append((s, e, bits_f32(b)))
        want_count = None
    wb, wmn, wmx, wsum, wsq = weighted_stats(pieces)
    if bases != wb:
        return f"summary reports {bases} covered bases, the data covers {wb}"
    if wb == 0:
        return None
    for name, got, want in (("min", mn, wmn), ("max", mx, wmx), ("sum", sm, wsum), ("sum of squares", sq, wsq)):
        if got != float(want):
            return f"summary {name} is {got}, the data gives {want}"
    return None


def oracle_zoom(case, il, bed):
    """full-span zoom answers: order, disjointness, length, exact statistics, coverage; partial answers: completeness"""
    if bed:
        order, sizes, data = case_input_bed(case)
        pieces = {n: depth_segments(data[n]) for n in order}
    else:
        order, sizes, data = case_input_wig(case)
        pieces = {n: [(s, e, bits_f32(b)) for (s, e, b) in data[n] if e > s] for n in order}
    z = first_line(il, "ZOOMS")
    levels = [int(x) for x in z.split(" ")[1:]] if z else []
    for a, b in zip(levels, levels[1:]):
        if not a < b:
            return f"zoom levels are not strictly increasing: {levels}"
    ans = answer_lines(il)
    full = {}
    qs = case.records("Q")
    for qi, q in enumerate(qs):
        if q[1] != "zoom":
            continue
        k = int(q[5][1:]) if q[5].startswith("#") else None
        if k is None or k >= len(levels) or q[2] not in order:
            continue
        res = levels[k]
        a = ans.get(qi, f"A {qi} missing")
        if not a.startswith(f"A {qi} ok"):
            return f"zoom query {q[2]}:{q[3]}-{q[4]} level {res} failed: `{a[:60]}`"
        recs = parse_zoom(a)
        if any(r is None for r in recs):
            return f"zoom query {q[2]} level {res}: a record could not be read"
        s, e = int(q[3]), int(q[4])
        cid = order.index(q[2])
        R = [(int(r[1]), int(r[2]), int(r[3]), fnum_to_float(r[4]), fnum_to_float(r[5]), fnum_to_float(r[6]), fnum_to_float(r[7]), int(r[0])) for r in recs]
        if s == 0 and e == sizes[q[2]]:
            full[(q[2], res)] = R
            prev_end = None
            covered = 0
            for (rs, re_, rb, rmn, rmx, rsum, rsq, rc) in R:
                if rc != cid:
                    return f"zoom level {res}: record {rs}-{re_} carries chromosome id {rc}, expected {cid}"
                if not rs < re_:
                    return f"zoom level {res}: record {rs}-{re_} is empty or reversed"
                if re_ - rs > res:
                    return f"zoom level {res}: record {rs}-{re_} is longer than the resolution"
                if prev_end is not None and rs < prev_end:
                    return f"zoom level {res}: records overlap or are out of order at {rs}"
                prev_end = re_
                inside = [(max(ps, rs), min(pe, re_), v) for (ps, pe, v) in pieces[q[2]] if pe > rs and ps < re_]
                wb, wmn, wmx, wsum, wsq = weighted_stats(inside)
                if rb != wb:
                    return f"zoom level {res}: record {rs}-{re_} claims {rb} covered bases, the data covers {wb} there"
                if wb:
                    for name, got, want in (("min", rmn, wmn), ("max", rmx, wmx), ("sum", rsum, f32_of(wsum)), ("sum of squares", rsq, f32_of(wsq))):
                        # a zoom record stores its sum and sum of squares in single precision: the exact value, rounded once
                        if got != float(want):
                            return f"zoom level {res}: record {rs}-{re_} reports {name} {got}, the data inside it gives {want}"
                covered += rb
            total = sum(pe - ps for (ps, pe, _) in pieces[q[2]])
            if covered != total:
                return f"zoom level {res} on {q[2]}: records cover {covered} bases, the data covers {total}"
    for qi, q in enumerate(qs):
        if q[1] != "zoom" or not q[5].startswith("#"):
            continue
        k = int(q[5][1:])
        if k >= len(levels) or q[2] not in order:
            continue
        res = levels[k]
        key = (q[2], res)
        s, e = int(q[3]), int(q[4])
        if key in full and not (s == 0 and e == sizes[q[2]]):
            a = ans.get(qi, "")
            if not a.startswith(f"A {qi} ok"):
                return f"zoom query {q[2]}:{s}-{e} level {res} failed: `{a[:60]}`"
            got = [(int(r[1]), int(r[2])) for r in parse_zoom(a) if r]
            allr = [(r[0], r[1]) for r in full[key]]
            for r in allr:
                if r[0] < e and r[1] > s and r not in got:
                    return f"zoom range query {q[2]}:{s}-{e} level {res} misses record {r[0]}-{r[1]}"
            for g in got:
                if g not in allr:
                    return f"zoom range query {q[2]}:{s}-{e} level {res} returns a record {g} the level does not hold"
    return None


def many_contigs(n=300, per=3):
    """n small chromosomes with `per` values each: more data sections than the index's default fan-out (256), so the index has
    an upper level whose nodes span chromosome boundaries — with DEFAULT options. -> (names, sizes, {name: [(s, e, v)]})"""
    names = [f"contig_{i:04d}" for i in range(n)]
    sizes = {nm: 5000 + 7 * i for i, nm in enumerate(names)}
    data = {}
    for i, nm in enumerate(names):
        base = (i * 37) % 900                       # extents shrink and grow from one chromosome to the next
        data[nm] = [(base + 20 * j, base + 20 * j + 5 + (i + j) % 9, 1 + (i + j) % 7) for j in range(per)]
    return names, sizes, data

