#!/usr/bin/env python3
"""Generates a Props/<ID>.lean skeleton that RESTATES theorems of the lemma modules under property-level
names (statement copied verbatim, proof = the lemma applied to the binders). One-off authoring aid: the
generated files are committed and edited by hand afterwards; nothing at check time depends on this script.

usage: mk_props.py <ID> "<title>" <Module>:<theorem>[:<new name>] ...
"""
import os
import re
import sys

LEAN = os.path.join(os.path.dirname(os.path.dirname(os.path.abspath(__file__))), "lean", "BigtoolsModel")


def find_theorem(src, name):
    m = re.search(r"^theorem\s+" + re.escape(name) + r"\b", src, re.M)
    if not m:
        raise SystemExit(f"theorem {name} not found")
    i = m.start()
    # signature ends at the first top-level ':=' (depth 0 in all bracket kinds)
    depth, j = 0, m.end()
    while j < len(src):
        c = src[j]
        if c in "([{⟨":
            depth += 1
        elif c in ")]}⟩":
            depth -= 1
        elif depth == 0 and src.startswith(":=", j):
            break
        j += 1
    sig = src[m.end():j].rstrip()
    # doc comment directly above
    doc = ""
    k = src.rfind("/--", 0, i)
    if k >= 0 and src[k:i].count("-/") == 1 and src[src.find("-/", k) + 2:i].strip() == "":
        doc = src[k:i].rstrip()
    return sig, doc


def namespace_at(src, pos):
    ns, opens = None, []
    for m in re.finditer(r"^(namespace|open|end)\s+([\w. ]+)$", src[:pos], re.M):
        if m.group(1) == "namespace":
            ns = m.group(2).strip()
            opens = []
        elif m.group(1) == "open" and ns:
            opens.append(m.group(2).strip())
        elif m.group(1) == "end" and ns and m.group(2).strip() == ns:
            ns = None
    return ns, opens


def explicit_binders(sig):
    """names of the explicit binders before the top-level ':'"""
    names, depth, i = [], 0, 0
    colon = None
    while i < len(sig):
        c = sig[i]
        if c in "([{⟨":
            if depth == 0 and c == "(":
                # a binder group (a b : T)
                j, d = i + 1, 1
                while d:
                    if sig[j] in "([{⟨":
                        d += 1
                    elif sig[j] in ")]}⟩":
                        d -= 1
                    j += 1
                grp = sig[i + 1:j - 1]
                if ":" in grp:
                    names += grp.split(":")[0].split()
                i = j
                continue
            depth += 1
        elif c in ")]}⟩":
            depth -= 1
        elif c == ":" and depth == 0 and not sig.startswith(":=", i):
            colon = i
            break
        i += 1
    return names


def main():
    pid, title = sys.argv[1], sys.argv[2]
    items = [a.split(":") for a in sys.argv[3:]]
    mods = []
    blocks = {}
    for it in items:
        mod, thm = it[0], it[1]
        new = it[2] if len(it) > 2 else thm
        src = open(os.path.join(LEAN, mod + ".lean"), encoding="utf-8").read()
        sig, doc = find_theorem(src, thm)
        m = re.search(r"^theorem\s+" + re.escape(thm) + r"\b", src, re.M)
        ns, opens = namespace_at(src, m.start())
        if mod not in mods:
            mods.append(mod)
        key = (ns, tuple(opens))
        names = explicit_binders(sig)
        body = (doc + "\n" if doc else "") + f"theorem {pid}_{new}{sig} :=\n  {thm} " + " ".join(names) + "\n"
        blocks.setdefault(key, []).append(body)
    out = "".join(f"import BigtoolsModel.{m}\n" for m in mods)
    out += f"/-! # {pid} — {title}\n\nProperty theorems (statements copied from the lemma modules, proofs by those lemmas). -/\n"
    for (ns, opens), bs in blocks.items():
        out += f"\nnamespace {ns}\n"
        for o in opens:
            out += f"open {o}\n"
        out += "\n" + "\n".join(bs)
        out += f"\nend {ns}\n"
    path = os.path.join(LEAN, "Props", pid + ".lean")
    if os.path.exists(path) and "--force" not in sys.argv:
        raise SystemExit(path + " exists")
    open(path, "w", encoding="utf-8").write(out)
    print("wrote", path)


if __name__ == "__main__":
    main()
