#!/usr/bin/env python3
"""Runs under the tooling interpreter (python3-vt: CPython 3.11 + numpy) with the pybigtools cdylib built from
/repo's working tree on sys.path: calls the REAL Python API `values()` exactly as a user would.

usage: py_values_driver.py <module dir> <jobs.json> <results.json>
jobs: [{"file": path, "open": "path" | "bytesio" | "short7" | "short1000", "requests": [{"chrom", "start", "end", "bins", "summary", "exact", "missing", "oob", "arr"}, …]}, …]
      ("arr": x = pass `arr=` an array of the right size pre-filled with x; the answer must not depend on it)
results: per job a list of either {"v": [f64 hex…]} or {"exc": "<type>: <message>"}.
"""
import json
import struct
import sys


def main():
    sys.path.insert(0, sys.argv[1])
    import pybigtools
    jobs = json.load(open(sys.argv[2]))
    out = []
    for job in jobs:
        res = []
        try:
            how = job.get("open", "path")
            if how == "path":
                f = pybigtools.open(job["file"])
            else:
                import io

                class Short(io.RawIOBase):
                    """a file-like object whose read(n) delivers at most `chunk` bytes per call (a raw / pipe- / network-backed
                    stream): legal for Python's read(), and the reader must still get every byte"""
                    def __init__(self, path, chunk):
                        self.f, self.chunk = open(path, "rb"), chunk

                    def read(self, n=-1):
                        return self.f.read(self.chunk if n is None or n < 0 else min(n, self.chunk))

                    def readable(self):
                        return True

                    def seekable(self):
                        return True

                    def seek(self, off, whence=0):
                        return self.f.seek(off, whence)

                    def tell(self):
                        return self.f.tell()
                f = pybigtools.open(Short(job["file"], 7 if how == "short7" else 1000) if how.startswith("short") else io.BytesIO(open(job["file"], "rb").read()))
        except BaseException as e:
            out.append([{"exc": f"open: {type(e).__name__}: {str(e)[:120]}"}] * len(job["requests"]))
            continue
        for rq in job["requests"]:
            kw = {}
            if rq.get("bins") is not None:
                kw["bins"] = rq["bins"]
                kw["summary"] = rq.get("summary", "mean")
                kw["exact"] = bool(rq.get("exact", True))
            for k in ("missing", "oob"):
                if rq.get(k) is not None:
                    kw[k] = float("nan") if rq[k] == "nan" else float(rq[k])
            if rq.get("arr") is not None:
                # a caller-supplied output buffer that already holds something (a reused array, np.empty)
                import numpy
                n = rq["bins"] if rq.get("bins") is not None else rq["end"] - rq["start"]
                kw["arr"] = numpy.full(n, float(rq["arr"]), dtype="float64")
            try:
                v = f.values(rq["chrom"], rq["start"], rq["end"], **kw)
                res.append({"v": [struct.pack(">d", float(x)).hex() for x in v]})
            except BaseException as e:          # PanicException derives from BaseException
                res.append({"exc": f"{type(e).__name__}: {str(e)[:160]}"})
        out.append(res)
    json.dump(out, open(sys.argv[3], "w"))


if __name__ == "__main__":
    main()
