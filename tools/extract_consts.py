#!/usr/bin/env python3
"""Mini-translator: re-extracts the constants and tables of /repo that the Lean model uses as DATA
(not logic) and writes lean/BigtoolsModel/Generated/Consts.lean. Run by every check.

If a pattern is not found (the source was reshaped) the previously generated value is kept and the item is
listed in the returned `failed` list; an extraction failure alone is never a violation (the behavioural
correspondence remains the tie), it is recorded in the evidence.
"""
import os
import re
import sys

VERIF = os.path.dirname(os.path.dirname(os.path.abspath(__file__)))
REPO = os.environ.get("VERIF_REPO", "/repo")
OUT = os.path.join(VERIF, "lean", "BigtoolsModel", "Generated", "Consts.lean")
FUNCS = os.path.join(VERIF, "lean", "BigtoolsModel", "Generated", "Funcs.lean")


def rust_string_at(src, i):
    """parses the Rust string literal starting at src[i] (`"` or `r#"`); returns (text, end index)"""
    if src.startswith('r#"', i):
        j = src.index('"#', i + 3)
        return src[i + 3:j], j + 2
    assert src[i] == '"', src[i:i + 20]
    out, j = [], i + 1
    while src[j] != '"':
        c = src[j]
        if c == "\\":
            n = src[j + 1]
            if n == "n":
                out.append("\n")
            elif n == "t":
                out.append("\t")
            elif n == "\\":
                out.append("\\")
            elif n == '"':
                out.append('"')
            elif n == "0":
                out.append("\0")
            elif n == "\n":
                j += 2
                while src[j] in " \t\n\r":
                    j += 1
                continue
            else:
                out.append(n)
            j += 2
        else:
            out.append(c)
            j += 1
    return "".join(out), j + 1


def cps(s):
    return "[" + ",".join(str(ord(c)) for c in s) + "]"


def read(rel):
    return open(os.path.join(REPO, rel), encoding="utf-8").read()


def extract():
    vals, failed = {}, []

    def attempt(name, fn):
        try:
            vals[name] = fn()
        except Exception as e:        # noqa
            failed.append(name)

    asql = read("bigtools/src/bed/autosql.rs")

    def bed3():
        i = asql.index("pub const BED3")
        i = asql.index("=", i) + 1
        while asql[i] in " \n":
            i += 1
        return cps(rust_string_at(asql, i)[0])
    attempt("BED3", bed3)

    def header():
        i = asql.index("let mut def = ") + len("let mut def = ")
        return cps(rust_string_at(asql, i)[0])
    attempt("AUTOSQL_HEADER", header)

    def fields():
        i = asql.index("const FIELDS")
        i = asql.index("&[", asql.index("=", i)) + 2
        out = []
        while True:
            while asql[i] in " \n,\t":
                i += 1
            if asql[i] == "]":
                break
            s, i = rust_string_at(asql, i)
            out.append(cps(s))
        return "[" + ", ".join(out) + "]"
    attempt("AUTOSQL_FIELDS", fields)

    def lfield():
        i = asql.index('"   lstring field{}')
        s, _ = rust_string_at(asql, i)
        a, b = s.split("{}")
        return cps(a), cps(b)
    attempt("AUTOSQL_LFIELD", lfield)

    def lfield_off():
        m = re.search(r"i \+ (\d+) \+ (\d+)\s*\)\)", asql)
        return str(int(m.group(1)) + int(m.group(2)))
    attempt("AUTOSQL_LFIELD_OFFSET", lfield_off)

    merge = read("bigtools/src/utils/merge.rs")
    attempt("DATA_SIZE", lambda: re.search(r"const DATA_SIZE: usize = (\d+);", merge).group(1))

    bbi = read("bigtools/src/bbi.rs")
    for nm in ("BIGWIG_MAGIC", "BIGBED_MAGIC", "CIR_TREE_MAGIC", "CHROM_TREE_MAGIC"):
        attempt(nm, lambda nm=nm: str(int(re.search(nm + r": u32 = (0x[0-9A-Fa-f_]+);", bbi).group(1).replace("_", ""), 16)))
    bw = read("bigtools/src/bbi/bbiwrite.rs")
    attempt("DEFAULT_BLOCK_SIZE", lambda: re.search(r"DEFAULT_BLOCK_SIZE: u32 = (\d+);", bw).group(1))
    attempt("DEFAULT_ITEMS_PER_SLOT", lambda: re.search(r"DEFAULT_ITEMS_PER_SLOT: u32 = (\d+);", bw).group(1))
    attempt("MAX_ZOOM_LEVELS", lambda: re.search(r"MAX_ZOOM_LEVELS: usize = (\d+);", bw).group(1))

    cli = read("bigtools/src/utils/cli.rs")

    def compat():
        i = cli.index("fn compat_arg_mut")
        body = cli[i:cli.index("\n}\n", i)]
        rep = body[body.index("replace:"):body.index("ignore:")]
        ign = body[body.index("ignore:"):body.index("unimplemented:")]
        uni = body[body.index("unimplemented:"):]
        pairs = re.findall(r'"([^"]*)"\s*,\s*"([^"]*)"', rep)
        ig = re.findall(r'"([^"]*)"', ign)
        un = re.findall(r'"([^"]*)"', uni)
        assert pairs and ig and un
        return ("[" + ", ".join(f"({cps(a)}, {cps(b)})" for a, b in pairs) + "]",
                "[" + ", ".join(cps(a) for a in ig) + "]", "[" + ", ".join(cps(a) for a in un) + "]")
    attempt("COMPAT", compat)

    mergecli = read("bigtools/src/utils/cli/bigwigmerge.rs")

    def suffixes():
        s = re.findall(r'output\.to_lowercase\(\)\.ends_with\("([^"]+)"\)', mergecli)
        assert len(s) == 3
        return [cps(x) for x in s]
    attempt("MERGE_SUFFIXES", suffixes)

    def merge_start():
        m = re.findall(r"get_interval_move\(&chrom, (\d+), size\)", mergecli)
        assert m and len(set(m)) == 1
        return m[0]
    attempt("MERGE_QUERY_START", merge_start)
    return vals, failed


def render(vals):
    g = vals.get
    lines = ["/-! GENERATED by tools/extract_consts.py from /repo's working tree — do not edit.",
             "    Constants and tables of the code that the model uses as data. -/",
             "namespace Gen", ""]
    simple = ["DATA_SIZE", "BIGWIG_MAGIC", "BIGBED_MAGIC", "CIR_TREE_MAGIC", "CHROM_TREE_MAGIC", "DEFAULT_BLOCK_SIZE",
              "DEFAULT_ITEMS_PER_SLOT", "MAX_ZOOM_LEVELS", "AUTOSQL_LFIELD_OFFSET", "MERGE_QUERY_START"]
    for k in simple:
        lines.append(f"def {k} : Nat := {g(k)}")
    lines.append(f"def BED3 : List Nat := {g('BED3')}")
    lines.append(f"def AUTOSQL_HEADER : List Nat := {g('AUTOSQL_HEADER')}")
    lines.append(f"def AUTOSQL_FIELDS : List (List Nat) := {g('AUTOSQL_FIELDS')}")
    a, b = g("AUTOSQL_LFIELD")
    lines.append(f"def AUTOSQL_LFIELD_A : List Nat := {a}")
    lines.append(f"def AUTOSQL_LFIELD_B : List Nat := {b}")
    r, i, u = g("COMPAT")
    lines.append(f"def COMPAT_REPLACE : List (List Nat × List Nat) := {r}")
    lines.append(f"def COMPAT_IGNORE : List (List Nat) := {i}")
    lines.append(f"def COMPAT_UNIMPLEMENTED : List (List Nat) := {u}")
    s = g("MERGE_SUFFIXES")
    lines.append(f"def MERGE_SUFFIX_BW : List Nat := {s[0]}")
    lines.append(f"def MERGE_SUFFIX_BIGWIG : List Nat := {s[1]}")
    lines.append(f"def MERGE_SUFFIX_BEDGRAPH : List Nat := {s[2]}")
    lines += ["", "end Gen", ""]
    return "\n".join(lines)


def previous():
    """values of the committed snapshot, used for items whose extraction failed"""
    if not os.path.exists(OUT):
        return {}
    src = open(OUT, encoding="utf-8").read()
    out = {}
    for m in re.finditer(r"^def (\w+) : [^=]*:= (.*)$", src, re.M):
        out[m.group(1)] = m.group(2)
    return out


def funcs():
    """pure decision functions translated from their Rust source (tools/rs2lean.py) -> Generated/Funcs.lean.
    Returns (failed?, changed?). A function outside the translator's subset, or a translation Lean does not accept,
    is an extraction failure: the previous snapshot stays."""
    import subprocess
    import tempfile
    sys.path.insert(0, os.path.dirname(os.path.abspath(__file__)))
    import rs2lean
    try:
        body = rs2lean.translate(read("bigtools/src/bbi/bbiread.rs"), ["overlaps"])
        # the range filters inside the block decoders (conditions mentioning both query bounds), with the clipping
        # assignments that follow them; the variable names are part of the contract (a rename is an extraction failure)
        defs = []
        wig = rs2lean.range_filters(read("bigtools/src/bbi/bigwigread.rs"), "get_block_values", ("value.start", "value.end"))
        wp = ["value_start", "value_end", "start", "end"]
        assert len(wig) == 3, "three section types"
        for k, (c, asg) in enumerate(wig):
            assert rs2lean.free_vars(c) <= set(wp) and all(rs2lean.free_vars(v) <= set(wp) for v in asg.values())
            defs.append(rs2lean.lean_def(f"wig_keep_{k}", wp, "Bool", c))
            defs.append(rs2lean.lean_def(f"wig_clip_start_{k}", wp, "Nat", asg["value.start"]))
            defs.append(rs2lean.lean_def(f"wig_clip_end_{k}", wp, "Nat", asg["value.end"]))
        bed = rs2lean.range_filters(read("bigtools/src/bbi/bigbedread.rs"), "get_block_entries")
        bp = ["entry_start", "entry_end", "start", "end"]
        assert len(bed) == 1 and rs2lean.free_vars(bed[0][0]) <= set(bp)
        defs.append(rs2lean.lean_def("bed_keep", bp, "Bool", bed[0][0]))
        zoom = rs2lean.range_filters(read("bigtools/src/bbi/bbiread.rs"), "get_zoom_block_values")
        zp = ["chrom_id", "chrom", "chrom_start", "chrom_end", "start", "end"]
        assert len(zoom) == 2, "one per byte order"
        for k, (c, _) in enumerate(zoom):
            assert rs2lean.free_vars(c) <= set(zp)
            defs.append(rs2lean.lean_def(f"zoom_keep_{k}", zp, "Bool", c))
        # the writers' preconditions: `if <cond> { return Err(` in process_val, split into the conditions on the value
        # alone and those that involve the look-ahead value
        for tag, rel in (("wig", "bigtools/src/bbi/bigwigwrite.rs"), ("bed", "bigtools/src/bbi/bigbedwrite.rs")):
            conds = rs2lean.early_errors(read(rel), "process_val")
            sp = ["current_val_start", "current_val_end", "chrom_length"]
            npar = sp + ["next_val_start", "next_val_end"]
            single = [c for c in conds if not any(v.startswith("next_val") for v in rs2lean.free_vars(c))]
            nxt = [c for c in conds if any(v.startswith("next_val") for v in rs2lean.free_vars(c))]
            assert len(single) >= 1 and len(nxt) >= 1
            assert all(rs2lean.free_vars(c) <= set(sp) for c in single) and all(rs2lean.free_vars(c) <= set(npar) for c in nxt)
            defs.append(rs2lean.lean_def(f"{tag}_refuse_alone", sp, "Bool", rs2lean.disj(single)))
            defs.append(rs2lean.lean_def(f"{tag}_refuse_next", npar, "Bool", rs2lean.disj(nxt)))
        body += "\n\n" + "\n\n".join(defs)
    except Exception:                               # noqa  (Unsupported, or anything the parser trips over)
        committed_snapshot(FUNCS)
        return True, False
    text = ("/-! GENERATED by tools/extract_consts.py (tools/rs2lean.py) from /repo's working tree — do not edit.\n"
            "    Pure decision functions of the code, translated from their Rust source. -/\nnamespace Gen\n\n"
            + body + "\n\nend Gen\n")
    old = open(FUNCS, encoding="utf-8").read() if os.path.exists(FUNCS) else None
    if old == text:
        return False, False
    with tempfile.TemporaryDirectory() as td:
        tmp = os.path.join(td, "Funcs.lean")
        open(tmp, "w", encoding="utf-8").write(text)
        try:
            ok = subprocess.run(["lean", tmp], capture_output=True, timeout=120).returncode == 0
        except Exception:                           # noqa
            ok = False
    if not ok:
        committed_snapshot(FUNCS)
        return True, False
    with open(FUNCS, "w", encoding="utf-8") as f:
        f.write(text)
    return False, old is not None


ATOMS = os.path.join(os.path.dirname(OUT), "Atoms.lean")

N, B = "Nat", "Bool"


FAILED_ATOMS = []
CUR_SRC = [None]
CUR_BODY = [None]


def committed_def(name):
    """the text of `def <name> …` in the committed Generated/Atoms.lean (None when there is none)"""
    import subprocess
    verif = os.path.dirname(os.path.dirname(os.path.abspath(__file__)))
    try:
        p = subprocess.run(["git", "-C", verif, "show", "HEAD:" + os.path.relpath(ATOMS, verif)], capture_output=True, timeout=30)
        m = re.search(r"^def " + re.escape(name) + r" .*?(?=\n\n|\Z)", p.stdout.decode("utf-8"), re.S | re.M)
        return m.group(0) if m else None
    except Exception:                               # noqa
        return None


def atoms_text():
    """The arithmetic and the branch conditions ("atoms") of the zoom tilers, the coverage sweeps, the section cut and
    the variable-step and fixed-step decoders, each translated from the expression found in the Rust source. Raises on any
    reshaping the patterns do not recognise (=> extraction failure, previous snapshot stays)."""
    import rs2lean as R
    out = []
    del FAILED_ATOMS[:]

    def emit(name, params, ret, thunk):
        """one regenerated expression; when the source no longer has the shape its pattern looks for, THIS definition keeps its
        committed text (and is listed in the evidence) while all the others are still regenerated"""
        try:
            e = thunk()
            names = [p for p, _ in params]
            # a name that is not a parameter may be a `const` of the source file the expression comes from
            for v in sorted(R.free_vars(e) - set(names)):
                mc = re.search(r"\bconst\s+" + re.escape(v) + r"\s*:\s*[^=;]+=\s*([^;]+);", CUR_SRC[0] or "")
                if mc:
                    e = R.subst(e, v, R.parse_expr(mc.group(1)))
            # … or a `let` of the function the expression comes from
            for _ in range(4):
                extra = sorted(R.free_vars(e) - set(names))
                if not extra or not CUR_BODY[0]:
                    break
                for v in extra:
                    try:
                        e = R.subst(e, v, R.let_expr(CUR_BODY[0], v))
                    except Exception:               # noqa
                        pass
            fv = R.free_vars(e)
            if not fv <= set(names):
                raise R.Unsupported(f"{name}: free variables {sorted(fv - set(names))} are not parameters")
            out.append(R.typed_def(name, params, ret, e))
        except Exception:                           # noqa
            old = committed_def(name)
            if old is None:
                raise
            FAILED_ATOMS.append(name)
            out.append(old)

    def region(*a, **k):
        CUR_SRC[0] = a[0] if a else None
        CUR_BODY[0] = None
        try:
            CUR_BODY[0] = R.fn_region(*a, **k)
            return CUR_BODY[0]
        except Exception:                           # noqa
            return None

    # --- bigWig zoom tiler: process_val_zoom in bigwigwrite.rs -------------------------------------------------------
    b = region(read("bigtools/src/bbi/bigwigwrite.rs"), "process_val_zoom")
    emit("wz_done", [("add_start", N), ("current_val_end", N)], B, lambda: (R.cond_over(b, {"add_start", "current_val_end"})))
    emit("wz_next_end", [("zoom2_start", N), ("zoom_item_size", N)], N, lambda: (R.let_expr(b, "next_end")))
    emit("wz_add_end", [("next_end", N), ("current_val_end", N)], N, lambda: (R.let_expr(b, "add_end")))
    emit("wz_update", [("add_end", N), ("add_start", N)], B, lambda: (R.cond_over(b, {"add_end", "add_start"})))
    emit("wz_added", [("add_end", N), ("add_start", N)], N, lambda: (R.let_expr(b, "added_bases")))
    emit("wz_close", [("add_end", N), ("next_end", N)], B, lambda: (R.cond_over(b, {"add_end", "next_end"})))
    emit("wz_next_start", [("add_end", N), ("current_val_start", N)], N, lambda: (R.assign_expr(b, "add_start")))
    fl = {"add_start", "current_val_end", "next_val_is_none", "options_items_per_slot", "zoom_item_live_info_is_none",
          "zoom_item_records_is_empty", "zoom_item_records_len"}
    emit("wz_flush", [("add_start", N), ("current_val_end", N), ("zoom_item_live_info_is_none", B), ("next_val_is_none", B),
                      ("zoom_item_records_is_empty", B), ("zoom_item_records_len", N), ("options_items_per_slot", N)], B,
         lambda: (R.cond_over(b, fl)))
    zs = [("added_bases", "Int"), ("val", "Int"), ("zoom2_summary_min_val", "Int"), ("zoom2_summary_max_val", "Int"), ("add_start", "Int")]

    def zoom_stats(prefix, body):
        # the statistics a value adds to the live zoom record, and the fields a fresh record starts with
        emit(prefix + "_bases_add", zs, "Int", lambda: (R.assign_expr(body, "zoom2.summary.bases_covered", "+=")))
        emit(prefix + "_items_add", zs, "Int", lambda: (R.assign_expr(body, "zoom2.summary.total_items", "+=")))
        emit(prefix + "_sum_add", zs, "Int", lambda: (R.assign_expr(body, "zoom2.summary.sum", "+=")))
        emit(prefix + "_sumsq_add", zs, "Int", lambda: (R.assign_expr(body, "zoom2.summary.sum_squares", "+=")))
        emit(prefix + "_min", zs, "Int", lambda: (R.assign_expr(body, "zoom2.summary.min_val", "=")))
        emit(prefix + "_max", zs, "Int", lambda: (R.assign_expr(body, "zoom2.summary.max_val", "=")))
        zr = body[body.find("ZoomRecord {"):] if body and "ZoomRecord {" in body else None      # the literal of a fresh record
        emit(prefix + "_new_start", zs, "Int", lambda: (R.field_expr(zr, "start")))
        emit(prefix + "_new_end", zs, "Int", lambda: (R.field_expr(zr, "end")))
        emit(prefix + "_new_min", zs, "Int", lambda: (R.field_expr(zr, "min_val")))
        emit(prefix + "_new_max", zs, "Int", lambda: (R.field_expr(zr, "max_val")))
        emit(prefix + "_new_bases", zs, "Int", lambda: (R.field_expr(zr, "bases_covered")))
    zoom_stats("wzs", b)
    # --- bigBed zoom path: process_val_zoom in bigbedwrite.rs (sweep, then the tiler over the flushed pieces) ----------
    b = region(read("bigtools/src/bbi/bigbedwrite.rs"), "process_val_zoom")
    emit("bzs_split", [("item_end", N), ("o_end", N)], B, lambda: (R.cond_over(b, {"item_end", "o_end"}, 0)))
    emit("bzs_tail", [("o_end", N), ("item_end", N)], B, lambda: (R.cond_over(b, {"item_end", "o_end"}, 1)))
    emit("bzs_more", [("f_start", N), ("next_start", N)], B, lambda: (R.closure_body(b, "f", {"f_start", "next_start"})))
    emit("bzs_whole", [("removed_end", N), ("next_start", N)], B, lambda: (R.cond_over(b, {"removed_end", "next_start"})))
    emit("bz_done", [("add_start", N), ("removed_end", N)], B, lambda: (R.cond_over(b, {"add_start", "removed_end"})))
    emit("bz_next_end", [("zoom2_start", N), ("zoom_item_size", N)], N, lambda: (R.let_expr(b, "next_end")))
    emit("bz_add_end", [("next_end", N), ("removed_end", N)], N, lambda: (R.let_expr(b, "add_end")))
    emit("bz_update", [("add_end", N), ("add_start", N)], B, lambda: (R.cond_over(b, {"add_end", "add_start"})))
    emit("bz_added", [("add_end", N), ("add_start", N)], N, lambda: (R.let_expr(b, "added_bases")))
    emit("bz_close", [("add_end", N), ("next_end", N)], B, lambda: (R.cond_over(b, {"add_end", "next_end"})))
    emit("bz_next_start", [("add_end", N), ("removed_start", N)], N, lambda: (R.assign_expr(b, "add_start")))
    emit("bz_full", [("zoom_item_records_len", N), ("options_items_per_slot", N)], B,
         lambda: (R.cond_over(b, {"zoom_item_records_len", "options_items_per_slot"})))
    zoom_stats("bzs2", b)
    # --- bigBed summary sweep and section cut: process_val in bigbedwrite.rs -------------------------------------------
    b = region(read("bigtools/src/bbi/bigbedwrite.rs"), "process_val", after="let add_interval_to_summary")
    emit("bs_split", [("item_end", N), ("o_end", N)], B, lambda: (R.cond_over(b, {"item_end", "o_end"}, 0)))
    emit("bs_tail", [("o_end", N), ("item_end", N)], B, lambda: (R.cond_over(b, {"item_end", "o_end"}, 1)))
    emit("bs_more", [("f_start", N), ("next_start", N)], B, lambda: (R.closure_body(b, "f", {"f_start", "next_start"})))
    emit("bs_whole", [("removed_end", N), ("next_start", N)], B, lambda: (R.cond_over(b, {"removed_end", "next_start"})))
    emit("bs_part_len", [("next_start", N), ("removed_start", N)], N, lambda: (R.let_expr(b, "len")))
    emit("bs_skip", [("len", N)], B, lambda: (R.cond_over(b, {"len"})))
    # where the sweep stops when no further entry follows on the chromosome (`let next_start = ….unwrap_or(<bound>)`)
    def sweep_bound(body):
        m = re.search(r"let\s+next_start\s*=\s*[^;]*?\.unwrap_or\(([^;]+)\)\s*;", body or "")
        if not m:
            raise R.Unsupported("let next_start = ….unwrap_or(…) not found")
        return R.parse_expr(m.group(1))
    emit("bs_final_bound", [("chrom_length", N)], N, lambda: (sweep_bound(b)))
    bz_body = region(read("bigtools/src/bbi/bigbedwrite.rs"), "process_val_zoom")
    emit("bzs_final_bound", [("chrom_length", N)], N, lambda: (sweep_bound(bz_body)))
    cp = [("next_val_is_none", B), ("items_len", N), ("options_items_per_slot", N)]

    def cut_cond(body):
        # `if next_val.is_none() || items.len() >= max_items` with `let max_items = …options.items_per_slot…;` inlined
        return R.subst(R.cond_over(body, {"next_val_is_none", "items_len", "max_items"}), "max_items", R.let_expr(body, "max_items"))
    emit("bed_cut", cp, B, lambda: (cut_cond(b)))
    b = region(read("bigtools/src/bbi/bigwigwrite.rs"), "process_val")
    emit("wig_cut", cp, B, lambda: (cut_cond(b)))
    emit("wig_len", [("current_val_end", N), ("current_val_start", N)], N, lambda: (R.let_expr(b, "len")))
    # --- variable-step and fixed-step sections: get_block_values in bigwigread.rs --------------------------------------
    b = region(read("bigtools/src/bbi/bigwigread.rs"), "get_block_values", after="2 => {")
    emit("var_end", [("chrom_start", N), ("item_span", N), ("item_step", N)], N, lambda: (R.let_expr(b, "chrom_end", 0)))
    b = region(read("bigtools/src/bbi/bigwigread.rs"), "get_block_values", after="3 => {")
    emit("fixed_end", [("chrom_start", N), ("item_span", N), ("item_step", N)], N, lambda: (R.let_expr(b, "chrom_end", 0)))
    emit("fixed_first", [("chrom_start", N)], N, lambda: (R.let_expr(b, "curr_start")))
    emit("fixed_advance", [("item_step", N), ("item_span", N)], N, lambda: (R.assign_expr(b, "curr_start", "+=")))
    # --- FileView: read and seek arithmetic (utils/file/file_view.rs) --------------------------------------------------
    I = "Int"
    fv = read("bigtools/src/utils/file/file_view.rs")
    b = region(fv, "read")
    emit("fv_read_len", [("buf_len", N), ("self_end", N), ("current", N)], N, lambda: (R.let_expr(b, "to_read")))
    b = region(fv, "seek", after="SeekFrom::Start(start) =>")
    m = re.search(r"let\s+seek_from\s*=\s*io::SeekFrom::Start\(([^;]+)\);", b)
    if not m:
        raise R.Unsupported("seek(Start): target expression not found")
    emit("fv_start_target", [("self_start", N), ("self_end", N), ("start", N)], N, lambda: (R.parse_expr(m.group(1))))
    emit("fv_rel", [("new_pos", N), ("self_start", N)], N, lambda: (R.let_expr(b, "new_pos", 0)))
    b = region(fv, "seek", after="SeekFrom::End(end) =>")
    emit("fv_end_offset", [("end", I)], I, lambda: (R.let_expr(b, "end", 0)))
    emit("fv_end_pos", [("self_end", N), ("end", I)], I, lambda: (R.let_expr(b, "new_pos", 0)))
    emit("fv_end_clamp", [("new_pos", I), ("self_start", N), ("self_end", N)], I, lambda: (R.let_expr(b, "new_pos", 1)))
    b = region(fv, "seek", after="SeekFrom::Current(offset) =>")
    emit("fv_cur_pos", [("current", N), ("offset", I)], I, lambda: (R.let_expr(b, "new_pos", 0)))
    emit("fv_cur_clamp", [("new_pos", I), ("self_start", N), ("self_end", N)], I, lambda: (R.let_expr(b, "new_pos", 1)))
    # --- chromosome index: the bisection of index_chroms (bed/indexer.rs do_index) -------------------------------------
    b = region(read("bigtools/src/bed/indexer.rs"), "do_index")
    ixp = [("prev_tell", N), ("limit", N), ("probe", N), ("tell", N)]
    emit("ix_stop", ixp, B, lambda: (R.cond_over(b, {"limit", "prev_tell"})))
    emit("ix_probe", ixp, N, lambda: (R.let_expr(b, "probe")))
    emit("ix_nothing_right", ixp, B, lambda: (R.cond_over(b, {"tell", "limit"})))

    def rec_limit(pat, what):
        m = re.search(pat, b)
        if not m:
            raise R.Unsupported("do_index: recursive call for " + what + " not found")
        return R.parse_expr(m.group(1))
    call = r"do_index\(\s*file,\s*chroms,\s*line,\s*%s,\s*([^,]+),\s*depth_limit - 1\s*,?\s*\)"
    emit("ix_retry_limit", ixp, N, lambda: (rec_limit(call % r"prev,\s*next", "the retry in the left part")))
    emit("ix_left_limit", ixp, N, lambda: (rec_limit(call % r"prev,\s*Some\(curr\)", "the left half")))
    emit("ix_right_limit", ixp, N, lambda: (rec_limit(call % r"curr,\s*next", "the right half")))
    # --- size-based chunking: split_file_into_chunks_by_size (utils/file.rs) -------------------------------------------
    b = region(read("bigtools/src/utils/file.rs"), "split_file_into_chunks_by_size")
    chp = [("file_size", N), ("chunks", N), ("chunk_size", N), ("chunk_start", N), ("chunk_end", N)]
    emit("ch_size", chp, N, lambda: (R.let_expr(b, "chunk_size")))
    emit("ch_first_end", chp, N, lambda: (R.let_expr(b, "chunk_end")))
    m = re.search(r"\(\s*chunk_start\s*,\s*chunk_end\s*\)\s*=\s*\(\s*([^,;]+),\s*([^;]+?)\s*,?\s*\)\s*;", b)
    if not m:
        raise R.Unsupported("chunker: the (chunk_start, chunk_end) update not found")
    emit("ch_next_start", chp, N, lambda: (R.parse_expr(m.group(1))))
    emit("ch_next_end_raw", chp, N, lambda: (R.parse_expr(m.group(2))))
    emit("ch_clamp_end", chp, N, lambda: (R.assign_expr(b, "chunk_end", "=", 1)))
    emit("ch_done", chp, B, lambda: (R.cond_over(b, {"chunk_start", "file_size"})))
    # --- summary statistics: what a value / a coverage piece adds, and what the running extrema start from -------------
    F = "FConst"
    src = read("bigtools/src/bbi/bigwigwrite.rs")
    b = region(src, "process_val")
    sp = [("len", I), ("val", I), ("summary_min_val", I), ("summary_max_val", I)]
    emit("ws_bases_add", sp, I, lambda: (R.assign_expr(b, "summary.bases_covered", "+=")))
    emit("ws_sum_add", sp, I, lambda: (R.assign_expr(b, "summary.sum", "+=")))
    emit("ws_sumsq_add", sp, I, lambda: (R.assign_expr(b, "summary.sum_squares", "+=")))
    emit("ws_min", sp, I, lambda: (R.assign_expr(b, "summary.min_val", "=")))
    emit("ws_max", sp, I, lambda: (R.assign_expr(b, "summary.max_val", "=")))
    creates = [m.start() for m in re.finditer(r"\bfn\s+create\s*\(", src)]
    if len(creates) < 2:
        raise R.Unsupported("bigwigwrite.rs: the two `create` functions (full / no-zooms process) not found")
    for tag, pos in (("full", creates[0]), ("nozoom", creates[1])):
        body = re.sub(r"//[^\n]*", "", R.find_fn(src[pos:], "create"))
        emit(f"ws_min_init_{tag}", [], F, lambda: (R.field_expr(body, "min_val")))
        emit(f"ws_max_init_{tag}", [], F, lambda: (R.field_expr(body, "max_val")))
    b = region(read("bigtools/src/bbi/bigbedwrite.rs"), "process_val", after="match summary")
    bp = [("len", I), ("val", I), ("summary_min_val", I), ("summary_max_val", I)]
    emit("bs_first_bases", bp, I, lambda: (R.field_expr(b, "bases_covered")))
    emit("bs_first_min", bp, I, lambda: (R.field_expr(b, "min_val")))
    emit("bs_first_max", bp, I, lambda: (R.field_expr(b, "max_val")))
    emit("bs_first_sum", bp, I, lambda: (R.field_expr(b, "sum")))
    emit("bs_first_sumsq", bp, I, lambda: (R.field_expr(b, "sum_squares")))
    emit("bs_bases_add", bp, I, lambda: (R.assign_expr(b, "summary.bases_covered", "+=")))
    emit("bs_sum_add", bp, I, lambda: (R.assign_expr(b, "summary.sum", "+=")))
    emit("bs_sumsq_add", bp, I, lambda: (R.assign_expr(b, "summary.sum_squares", "+=")))
    emit("bs_min", bp, I, lambda: (R.assign_expr(b, "summary.min_val", "=")))
    emit("bs_max", bp, I, lambda: (R.assign_expr(b, "summary.max_val", "=")))
    b = region(read("bigtools/src/utils/misc.rs"), "stats_for_bed_item")
    tp = [("num_bases", I), ("val_value", I), ("min", I), ("max", I)]
    emit("st_bases_add", tp, I, lambda: (R.assign_expr(b, "bases", "+=")))
    emit("st_sum_add", tp, I, lambda: (R.assign_expr(b, "sum", "+=")))
    emit("st_min", tp, I, lambda: (R.assign_expr(b, "min", "=")))
    emit("st_max", tp, I, lambda: (R.assign_expr(b, "max", "=")))
    emit("st_min_init", [], F, lambda: (R.let_expr(b, "min")))
    emit("st_max_init", [], F, lambda: (R.let_expr(b, "max")))
    # --- automatic zoom levels: how many candidates, and the factor between them (bbiwrite.rs) -------------------------
    bw = read("bigtools/src/bbi/bbiwrite.rs")
    takes = []
    for mt in re.finditer(r"\.take\(", bw):
        depth, j = 1, mt.end()
        while depth and j < len(bw):
            depth += {"(": 1, ")": -1}.get(bw[j], 0)
            j += 1
        if "max_zooms" in bw[mt.end():j - 1]:
            takes.append(bw[mt.end():j - 1])          # the `.take(…)` that bounds the automatic levels by max_zooms, capped or not
    CUR_SRC[0] = None                                  # MAX_ZOOM_LEVELS stays a parameter here (its value is re-extracted into Consts.lean)
    for i_, tag in enumerate(("single", "two")):
        emit(f"zl_count_{tag}", [("options_max_zooms", N), ("MAX_ZOOM_LEVELS", N)], N, lambda: (R.parse_expr(takes[i_])))
    m = re.search(r"successors\(Some\(options\.initial_zoom_size\),\s*\|z\|\s*z\.checked_mul\((\d+)\)\)", bw)
    if not m:
        raise R.Unsupported("the successor rule of the automatic zoom sizes not found")
    emit("zl_factor", [], N, lambda: (("int", m.group(1))))
    # --- the readers' block fetch: read_block_data in bbiread.rs (how many bytes are read, how large the inflate buffer is) ----------
    brs = read("bigtools/src/bbi/bbiread.rs")
    b = region(brs, "read_block_data")
    rbp = ["info_header_uncompress_buf_size", "block_size", "raw_data_len"]
    emit("rb_raw_len", [(x, N) for x in rbp], N, lambda: (R.inline_lets(R.vec_len_expr(b, "raw_data"), b, rbp, consts=brs)))
    emit("rb_inflate_buf", [(x, N) for x in rbp], N, lambda: (R.inline_lets(R.vec_len_expr(b, "outbuf"), b, rbp, consts=brs)))
    emit("rb_compressed", [(x, N) for x in rbp], B, lambda: (R.inline_lets(R.cond_over(b, {"uncompress_buf_size"}), b, rbp, consts=brs)))
    # --- fixed-width decoders written out byte by byte: which bytes of an item each field is assembled from -----------------------
    def byte_fields(text):
        out_ = []
        for mf in re.finditer(r"let\s+(\w+)\s*=\s*(?:u32|u64|f32)::from_(le|be)_bytes\(\[((?:[^\[\]]|\[[^\]]*\])*)\]\)", text):
            idx = re.findall(r"\[\s*(\d+)\s*\]", mf.group(3))
            if not idx or len(idx) != len([x for x in mf.group(3).split(",") if x.strip()]):
                raise R.Unsupported("byte list of " + mf.group(1) + " is not a list of constant indexes")
            out_.append((mf.group(1), mf.group(2), [int(x) for x in idx]))
        if not out_:
            raise R.Unsupported("no from_le_bytes / from_be_bytes list found")
        return out_

    def emit_fields(name, doc, text):
        fl_ = byte_fields(text)
        out.append(f"/-- {doc}: (field, byte order arm, indexes of the item's bytes, in the order handed to `from_*_bytes`) -/\n"
                   f"def {name} : List (String × String × List Nat) :=\n  [" +
                   ", ".join(f'("{n_}", "{e_}", [{", ".join(map(str, ix))}])' for n_, e_, ix in fl_) + "]")
    brs2 = re.sub(r"//[^\n]*", "", read("bigtools/src/bbi/bbiread.rs"))
    for nm, ty, doc in (("bf_leaf", "CirTreeLeafItemIterator", "leaf items of an index node (32 bytes each)"),
                        ("bf_nonleaf", "CirTreeNonLeafItemsIterator", "non-leaf items of an index node (24 bytes each)")):
        pos = brs2.find("impl Iterator for " + ty)
        if pos < 0:
            raise R.Unsupported("impl Iterator for " + ty + " not found")
        emit_fields(nm, doc, R.find_fn(brs2[pos:], "next"))
    bwr = re.sub(r"//[^\n]*", "", read("bigtools/src/bbi/bigwigread.rs"))
    gbv = R.find_fn(bwr, "get_block_values")
    a1, a2 = gbv.find("1 => {"), gbv.find("2 => {")
    if a1 < 0 or a2 < a1:
        raise R.Unsupported("get_block_values: the arm of section type 1 not found")
    emit_fields("bf_bedgraph_item", "items of a bedGraph (type 1) section (12 bytes each)", gbv[a1:a2])
    # --- the index search's entry points: search_cir_tree / search_cir_tree_inner in bbiread.rs -------------------------------------
    sct = region(brs2, "search_cir_tree")
    def some_arm_value(text):
        """the value of the `Some(x) => …` arm (an expression, or the tail expression of a block), with `x.` renamed to `c.`"""
        m = re.search(r"Some\((\w+)\)\s*=>\s*", text or "")
        if not m:
            raise R.Unsupported("Some(..) arm not found")
        k = m.end()
        if text[k] == "{":
            depth, q = 0, k
            while True:
                depth += {"{": 1, "}": -1}.get(text[q], 0)
                if depth == 0:
                    break
                q += 1
            body_ = text[k + 1:q]
            tail = re.split(r"[;}]", body_)[-1].strip()
        else:
            tail = re.match(r"[^,\n]+", text[k:]).group(0).strip()
        return R.parse_expr(re.sub(r"\b" + re.escape(m.group(1)) + r"\.", "c.", tail))
    emit("sc_chrom_id", [("c_id", N), ("ix", N)], N, lambda: (some_arm_value(sct)))
    sci = R.find_fn(brs2, "search_cir_tree_inner")
    both = (sct or "") + "\n" + sci
    guards = [re.sub(r"\s+", " ", g.strip()) for g in re.findall(r"\bif\s+([^{}]+?)\s*\{\s*return\s+Ok\(", both)]
    mfor = re.search(r"\bfor\s+\w+\s+in\s+([^{]+?)\s*\{", sci)
    if not mfor:
        raise R.Unsupported("search_cir_tree_inner: the loop over the index walk not found")
    adaptors = re.findall(r"\.\s*([a-z_]+)\s*\(", mfor.group(1))
    out.append("/-- conditions under which `search_cir_tree` / `search_cir_tree_inner` return `Ok` early, without walking the index -/\n"
               "def sc_early_returns : List String :=\n  [" + ", ".join('"' + g.replace('"', "'") + '"' for g in guards) + "]")
    out.append("/-- iterator adaptors applied to the index walk before its blocks are collected (`for i in <walk>…`) -/\n"
               "def sc_walk_adaptors : List String :=\n  [" + ", ".join('"' + a + '"' for a in adaptors) + "]")
    # --- the staging buffer's reported length: TempFileBuffer::len in tempfilebuffer.rs ----------------------------------------
    b = region(read("bigtools/src/utils/file/tempfilebuffer.rs"), "len")

    def arm_ok(body, arm):
        m = re.search(re.escape(arm) + r"\s*=>\s*Ok\((.*?)\)\s*,\s*\n", body)
        if not m:
            raise R.Unsupported("len(): arm " + arm + " not found")
        return R.parse_expr(m.group(1))
    emit("tb_len_inmem", [("data_len", N)], N, lambda: (arm_ok(b, "BufferState::InMemory(data)")))
    emit("tb_len_notstarted", [], N, lambda: (arm_ok(b, "BufferState::NotStarted")))
    # --- pybigtools exact-bin and per-base array routines: which float format every integer → float conversion goes to -------
    # (the model computes bin borders and means in exact arithmetic; that is what `f64` gives for 32-bit coordinates and counts —
    # FR.f64_exact_u32 — and what `f32` does not)
    py = read("pybigtools/src/lib.rs")
    for fn in ("to_array", "to_array_bins", "to_entry_array", "to_entry_array_bins"):
        body = R.fn_region(py, fn)
        kinds = re.findall(r"\bas\s+(f32|f64)\b", body)
        if fn.endswith("_bins") and not kinds:
            raise R.Unsupported(f"{fn}: no integer to float conversion found")
        out.append(f"/-- `{fn}` of pybigtools: the value of `x` after each `as f32` / `as f64` in the function, in source order -/\n"
                   f"def pyb_conv_{fn} (x : Nat) : List Nat :=\n  [" + ", ".join(f"FR.{k} x" for k in kinds) + "]")
    # --- bare `write` calls on a destination in the library's writer modules (count ignored => a short write loses bytes) ------
    for rel, tag in (("bigtools/src/bbi/bbiwrite.rs", "bbiwrite"), ("bigtools/src/bbi/bigwigwrite.rs", "bigwigwrite"),
                     ("bigtools/src/bbi/bigbedwrite.rs", "bigbedwrite"), ("bigtools/src/utils/file/tempfilebuffer.rs", "tempfilebuffer")):
        sites = []
        src = re.sub(r"//[^\n]*", "", read(rel))
        cut = src.find("#[cfg(test)]")
        if cut >= 0:
            src = src[:cut]
        for mw in re.finditer(r"\.write\s*\(", src):
            depth, j, top_comma = 1, mw.end(), False
            while depth and j < len(src):
                c = src[j]
                depth += {"(": 1, "[": 1, "{": 1, ")": -1, "]": -1, "}": -1}.get(c, 0)
                if c == "," and depth == 1:
                    top_comma = True
                j += 1
            fns = re.findall(r"\bfn\s+([A-Za-z_0-9]+)", src[:mw.start()])
            encl = fns[-1] if fns else "?"
            if top_comma or encl == "write":
                continue                      # `out.write(vals, runtime)` is the writers' own API; `fn write` forwards the count
            sites.append(encl)
        out.append(f"/-- functions of {os.path.basename(rel)} that call a bare `write` (one buffer argument, outside an `impl Write`'s own `fn write`) -/\n"
                   f"def wr_bare_write_{tag} : List String :=\n  [" + ", ".join('"' + x + '"' for x in sites) + "]")
    return ("import BigtoolsModel.FloatRound\n"
            "/-! GENERATED by tools/extract_consts.py (tools/rs2lean.py) from /repo's working tree — do not edit.\n"
            "    The arithmetic and branch conditions of the zoom tilers, the coverage sweeps, the section cut and the\n"
            "    variable-step and fixed-step decoders, of FileView's read and seek, of the chromosome bisection and of the size-based chunker, each translated from the expression in the Rust source. -/\nnamespace Gen\n\n"
            "/-- the named constants of `f64` that running extrema start from (floats themselves are not modelled) -/\n"
            "inductive FConst where | posMax | negMax | minPositive | nan | posInf | negInf | epsilon\nderiving DecidableEq, Repr\n\n"
            + "\n\n".join(out) + "\n\nend Gen\n")


def committed_snapshot(path):
    """an extraction failure must leave the COMMITTED snapshot in place, not whatever an earlier run generated"""
    import subprocess
    verif = os.path.dirname(os.path.dirname(os.path.abspath(__file__)))
    try:
        p = subprocess.run(["git", "-C", verif, "show", "HEAD:" + os.path.relpath(path, verif)], capture_output=True, timeout=30)
        if p.returncode == 0 and p.stdout and (not os.path.exists(path) or open(path, "rb").read() != p.stdout):
            open(path, "wb").write(p.stdout)
    except Exception:                               # noqa
        pass


def atoms():
    """-> (failed?, changed?)"""
    import subprocess
    import tempfile
    sys.path.insert(0, os.path.dirname(os.path.abspath(__file__)))
    try:
        text = atoms_text()
    except Exception:                               # noqa
        committed_snapshot(ATOMS)
        return True, False
    old = open(ATOMS, encoding="utf-8").read() if os.path.exists(ATOMS) else None
    if old == text:
        return False, False
    with tempfile.TemporaryDirectory() as td:
        tmp = os.path.join(td, "Atoms.lean")
        open(tmp, "w", encoding="utf-8").write(text)
        try:
            leandir = os.path.join(os.path.dirname(os.path.dirname(os.path.abspath(__file__))), "lean")
            subprocess.run(["lake", "build", "BigtoolsModel.FloatRound"], cwd=leandir, capture_output=True, timeout=300)
            ok = subprocess.run(["lake", "env", "lean", tmp], cwd=leandir, capture_output=True, timeout=120).returncode == 0
        except Exception:                           # noqa
            ok = False
    if not ok:
        committed_snapshot(ATOMS)
        return True, False
    with open(ATOMS, "w", encoding="utf-8") as f:
        f.write(text)
    return False, old is not None


def main():
    vals, failed = extract()
    ffailed, fchanged = funcs()
    afailed, achanged = atoms()
    fchanged = fchanged or achanged
    if failed:
        prev = previous()
        fill = {"AUTOSQL_LFIELD": (prev.get("AUTOSQL_LFIELD_A"), prev.get("AUTOSQL_LFIELD_B")),
                "COMPAT": (prev.get("COMPAT_REPLACE"), prev.get("COMPAT_IGNORE"), prev.get("COMPAT_UNIMPLEMENTED")),
                "MERGE_SUFFIXES": [prev.get("MERGE_SUFFIX_BW"), prev.get("MERGE_SUFFIX_BIGWIG"), prev.get("MERGE_SUFFIX_BEDGRAPH")]}
        for k in failed:
            vals[k] = fill.get(k, prev.get(k))
    text = render(vals)
    os.makedirs(os.path.dirname(OUT), exist_ok=True)
    old = open(OUT, encoding="utf-8").read() if os.path.exists(OUT) else None
    if old != text:
        with open(OUT, "w", encoding="utf-8") as f:
            f.write(text)
    return failed + (["FUNCS(overlaps, range filters, preconditions)"] if ffailed else []) + (["ATOMS(tilers, sweeps, cut, step decoders)"] if afailed else []) + ["ATOM " + a for a in FAILED_ATOMS], (old is not None and old != text) or fchanged


if __name__ == "__main__":
    f, changed = main()
    print("extraction_failed:", f, "changed:", changed)
